#!/usr/bin/env python3
"""Rewrites the generated blocks of DESIGN.md (between <!-- BEGIN GENERATED name --> and <!-- END GENERATED name -->)
from known_findings.json, evidence/*.json and seeded/detection.json."""
import json, os, re, glob
V = os.path.dirname(os.path.dirname(os.path.abspath(__file__)))
kf = json.load(open(V + "/known_findings.json"))
blocks = {}

# ---- fixes
rows = ["| property | commit | what failed (and the scenario that showed it) |", "|---|---|---|"]
for f in kf["fixed"]:
    m = re.match(r"fixed: property=(\S+) (\S+) (.*)", f, re.S)
    rows.append("| %s | `%s` | %s |" % (m.group(1), m.group(2), m.group(3).replace("|", "\\|").replace("\n", " ")))
blocks["fixes"] = "\n".join(rows)

# ---- known findings
rows = ["| property | scenario | kind | what fails |", "|---|---|---|---|"]
for f in kf["findings"]:
    rows.append("| %s | `%s` | `%s`%s | %s |" % (f["property"], f.get("scenario", "*"), f["kind"],
                                              (" (detail ~ `%s`)" % f["detail_re"]) if f.get("detail_re") else "", f["what"].replace("|", "\\|")))
blocks["findings"] = "\n".join(rows)

# ---- coverage per property from the committed evidence
rows = ["| id | tier | scenarios | executions | states | exhaustive within bounds | wall s | scenarios with a cap |", "|---|---|---|---|---|---|---|---|"]
for p in sorted(glob.glob(V + "/evidence/C*.json")):
    e = json.load(open(p))
    c = e["coverage"]
    sc = c.get("scenarios", [])
    capped = [s["scenario"] for s in sc if not s.get("exhaustive_within_bound", True)]
    rows.append("| %s | %s | %d | %d | %d | %s | %s | %s |" % (e["property_id"], e["tier"], len(sc), c.get("evaluations", 0), c.get("states", 0),
                                                          "yes" if c.get("exhaustive") else "no", e["wall_s"], ", ".join(capped[:6]) or "-"))
blocks["coverage"] = "\n".join(rows)

# ---- detection table
dp = V + "/seeded/detection.json"
if os.path.exists(dp):
    det = json.load(open(dp))
    rows = ["| change | origin | what it needs to manifest | caught by the quick check of its property (scenario : kind) |", "|---|---|---|---|"]
    for name in sorted(det):
        x = det[name]
        needs = ""
        mp = V + "/seeded/%s/meta.json" % name
        if os.path.exists(mp):
            needs = json.load(open(mp)).get("needs_to_manifest", "")
        else:
            # own mutations: first comment line of the diff, if any
            dpth = V + "/selfmut/%s.diff" % name
            if os.path.exists(dpth):
                needs = name.split("-", 1)[1].replace("-", " ")
        if not x.get("applies"):
            how = "patch no longer applies to the repaired tree (%s)" % x.get("note", "")[:60]
        elif x.get("detected"):
            how = "; ".join("%s : %s" % tuple(v) for v in x["violations"][:3])
            if x["n_violations"] > 3:
                how += " … (%d in all)" % x["n_violations"]
        else:
            how = "**not detected** (exit %s)" % x.get("exit")
        rows.append("| %s | %s | %s | %s |" % (name, x["origin"], needs.replace("|", "\\|"), how))
    blocks["detection"] = "\n".join(rows)

p = V + "/DESIGN.md"
s = open(p).read()
for name, body in blocks.items():
    pat = re.compile(r"(<!-- BEGIN GENERATED %s -->\n).*?(<!-- END GENERATED %s -->)" % (name, name), re.S)
    if not pat.search(s):
        print("no block", name)
        continue
    s = pat.sub(lambda m: m.group(1) + body + "\n" + m.group(2), s)
open(p, "w").write(s)
print("DESIGN.md blocks updated:", ", ".join(blocks))
