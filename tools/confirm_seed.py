#!/usr/bin/env python3
"""confirm_seed.py [-j N] [name ...] — my own confirmation of the sub-agents' seeded changes, each in a scratch clone
of /repo's HEAD under /var/tmp/confirm (removed afterwards):
  1. the demonstration test passes WITHOUT the change,
  2. the change applies and `go build ./...` succeeds,
  3. the demonstration test FAILS with the change,
  4. the repository's own suite (tools/baseline.sh: 505 stable tests, private network namespace) still passes with it.
Writes seeded/<name>/confirmation.json and the "confirmation" field of meta.json."""
import glob, json, os, re, subprocess, sys, time
from concurrent.futures import ThreadPoolExecutor
V = os.path.dirname(os.path.dirname(os.path.abspath(__file__)))
ENV = dict(os.environ, GOFLAGS="-mod=mod", GOPROXY="off", GOSUMDB="off", GOTOOLCHAIN="local")
PKG = {"local": "testing/tests/001_local", "distributed": "testing/tests/002_distributed", "edf": "net/edf", "handshake": "net/handshake",
       "proto": "net/proto", "node": "node", "act_test": "act", "act": "act", "lib": "lib", "gen": "gen"}


def sh(cmd, **kw):
    return subprocess.run(cmd, shell=True, capture_output=True, text=True, env=ENV, **kw)


def demo(d, files):
    """runs the demonstration tests; returns (passed, tail of output)"""
    ok, outs = True, []
    for f in files:
        src = open(f).read()
        pkg = re.search(r"^package (\w+)", src, re.M).group(1)
        names = re.findall(r"^func (Test\w+)\(", src, re.M)
        dst = os.path.join(d, PKG[pkg], os.path.basename(f))
        open(dst, "w").write(src)
        try:
            r = sh("unshare -n sh -c \"ip link set lo up; cd %s && go test -vet=off -count=1 -timeout 20m -run '^(%s)$' .\"" %
                   (os.path.join(d, PKG[pkg]), "|".join(names)), timeout=1500)
            rc, out = r.returncode, (r.stdout + r.stderr)
        except subprocess.TimeoutExpired:
            rc, out = 124, "timeout"
        os.remove(dst)
        ok = ok and rc == 0
        outs.append(out[-600:])
    return ok, "\n".join(outs)


def confirm(name):
    sd = os.path.join(V, "seeded", name)
    d = "/var/tmp/confirm/" + name
    sh("rm -rf %s && mkdir -p /var/tmp/confirm && git clone -q /repo %s" % (d, d))
    head = sh("git -C %s log --format=%%h -n1" % d).stdout.strip()
    files = sorted(glob.glob(sd + "/zz_demo_*_test.go"))
    res = dict(name=name, head=head, at=time.strftime("%Y-%m-%dT%H:%M:%SZ", time.gmtime()), demo_files=[os.path.basename(f) for f in files])
    try:
        ok, out = demo(d, files)
        res["demo_without_change"] = "pass" if ok else "FAIL"
        res["demo_without_tail"] = out[-300:]
        r = sh("git -C %s apply %s/patch.diff" % (d, sd))
        res["applies"] = r.returncode == 0
        if r.returncode != 0:
            res["note"] = r.stderr[-300:]
            return res
        r = sh("cd %s && go build ./..." % d)
        res["builds"] = r.returncode == 0
        ok, out = demo(d, files)
        res["demo_with_change"] = "pass (NOT demonstrated)" if ok else "fail"
        res["demo_with_tail"] = out[-400:]
        log = "/var/tmp/confirm/%s.suite.log" % name
        r = sh("%s/tools/baseline.sh %s %s" % (V, d, log), timeout=3600)
        m = re.search(r"stable baseline tests: (\d+) not passing: (\d+)", r.stdout)
        res["suite"] = "%s stable tests, %s not passing" % (m.group(1), m.group(2)) if m else "no result: " + (r.stdout + r.stderr)[-200:]
        res["suite_not_passing"] = r.stdout.splitlines()[1:8]
        os.remove(log)
        res["confirmed"] = bool(res["demo_without_change"] == "pass" and res["builds"] and res["demo_with_change"] == "fail" and m and m.group(2) == "0")
    except Exception as e:
        res["error"] = repr(e)
    finally:
        sh("rm -rf " + d)
        json.dump(res, open(os.path.join(sd, "confirmation.json"), "w"), indent=1)
        mp = os.path.join(sd, "meta.json")
        meta = json.load(open(mp))
        if res.get("confirmed"):
            meta["confirmation"] = "confirmed by tools/confirm_seed.py on /repo %s: builds; demonstration passes without and fails with the change; %s" % (head, res["suite"])
        else:
            meta["confirmation"] = "NOT confirmed on /repo %s, see confirmation.json" % head
        json.dump(meta, open(mp, "w"), indent=1)
    print(name, "confirmed" if res.get("confirmed") else "NOT CONFIRMED", {k: res.get(k) for k in ("demo_without_change", "demo_with_change", "suite")}, flush=True)
    return res


if __name__ == "__main__":
    args = sys.argv[1:]
    j = 4
    if args and args[0] == "-j":
        j = int(args[1])
        args = args[2:]
    names = args or sorted(os.path.basename(p.rstrip("/")) for p in glob.glob(V + "/seeded/C*/"))
    with ThreadPoolExecutor(j) as ex:
        list(ex.map(confirm, names))
