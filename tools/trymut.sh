#!/bin/sh
# usage: trymut.sh <patch> <ID> [check args...]  — applies a patch to /repo, runs the check, reverts
P=$1; ID=$2; shift 2
cd /repo && git apply "$P" || { echo "PATCH DOES NOT APPLY"; exit 9; }
cd /verif && ./check $ID --no-evidence "$@" 2>&1 | grep -E "^VIOLATION|quick:|thorough:|MACHINERY|^  scenario=" | cut -c1-300 | head -${TRYMUT_LINES:-12}
cd /repo && git checkout -- . && git status --short | head -3
