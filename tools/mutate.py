#!/usr/bin/env python3
"""mutate.py <file[:from-to]> <ID[,ID...]> [--jobs N] [--max N] [--ops rel,bool,const,del]

Mutation analysis of the CHECKS (not a check itself, decides nothing): applies one small syntactic change at a time
to a file of a scratch clone of /repo (relational operator swaps, && <-> ||, == true/false flips, +-1 on small
constants, deletion of single call statements), builds, runs the quick check of the given properties with
VERIF_REPO pointing at the clone, and records which changes no check notices. Survivors are listed in
mutation/<file>.json for triage by hand (equivalent change, outside every property, or a gap in a check)."""
import json, os, re, subprocess, sys, time
V = os.path.dirname(os.path.dirname(os.path.abspath(__file__)))
ENV = dict(os.environ, GOFLAGS="-mod=mod", GOPROXY="off", GOSUMDB="off", GOTOOLCHAIN="local")


def sh(cmd, **kw):
    return subprocess.run(cmd, shell=True, capture_output=True, text=True, env=ENV, **kw)


REL = [(r"<=", "<"), (r">=", ">"), (r"(?<![<=!>-])<(?![=<-])", "<="), (r"(?<![<=!>-])>(?![=>])", ">="), (r"==", "!="), (r"!=", "==")]
BOOL = [(r"&&", "||"), (r"\|\|", "&&"), (r"== false", "== true"), (r"== true", "== false")]
CONST = [(r"\+ 1\b", "+ 2"), (r"- 1\b", "- 2"), (r"\+ 1\b", ""), (r" - 1\b", "")]


def mutants(lines, lo, hi, ops):
    out = []
    for i, ln in enumerate(lines):
        n = i + 1
        if n < lo or n > hi:
            continue
        code = ln.split("//")[0]
        st = code.strip()
        if not st or st.startswith(("import", "package", "func ", "type ", "var ", "const ", "case ", "default:", "}")) and "if " not in st:
            if not (st.startswith("case ") and "rel" in ops):
                continue
        if "Trace(" in code or "log." in code.lower() and "(" in code or "fmt.Errorf" in code or "panic(" in code:
            continue
        groups = []
        if "rel" in ops:
            groups += REL
        if "bool" in ops:
            groups += BOOL
        if "const" in ops:
            groups += CONST
        for pat, rep in groups:
            for m in re.finditer(pat, code):
                # not inside a string literal (rough: even number of quotes before)
                if code[:m.start()].count('"') % 2 == 1 or code[:m.start()].count("'") % 2 == 1 or code[:m.start()].count("`") % 2 == 1:
                    continue
                if pat in (r"(?<![<=!>-])<(?![=<-])", r"(?<![<=!>-])>(?![=>])") and ("chan" in code or "<-" in code or "Map[" in code or "[T" in code):
                    continue
                new = code[:m.start()] + rep + code[m.end():] + ln[len(code):]
                out.append((n, "%s -> %s @%d" % (m.group(0), rep or "(removed)", m.start()), new))
        if "del" in ops and re.match(r"^\s*[\w.\[\]()]+\([^{}]*\)\s*$", code) and not st.startswith(("return", "go ", "defer ", "if ", "for ", "switch ")):
            out.append((n, "delete call statement", ln[:len(ln) - len(ln.lstrip())] + "// (deleted)\n"))
    return out


def main():
    a = sys.argv[1:]
    target, props = a[0], a[1].split(",")
    jobs, mx, ops = "8", 10 ** 9, ["rel", "bool", "const", "del"]
    for i, x in enumerate(a):
        if x == "--jobs":
            jobs = a[i + 1]
        if x == "--max":
            mx = int(a[i + 1])
        if x == "--ops":
            ops = a[i + 1].split(",")
    f, lo, hi = target, 1, 10 ** 9
    if ":" in target:
        f, r = target.split(":")
        lo, hi = [int(x) for x in r.split("-")]
    R = "/var/tmp/mutate-" + re.sub(r"\W", "_", f)
    sh("rm -rf %s && git clone -q /repo %s" % (R, R))
    path = os.path.join(R, f)
    orig = open(path).read()
    lines = orig.splitlines(keepends=True)
    ms = mutants(lines, lo, hi, ops)[:mx]
    os.makedirs(V + "/mutation", exist_ok=True)
    outp = V + "/mutation/%s.json" % re.sub(r"\W", "_", target)
    res = dict(file=f, range=[lo, hi if hi < 10 ** 9 else len(lines)], properties=props, head=sh("git -C /repo log --format=%h -n1").stdout.strip(), mutants=[])
    pkg = "./" + os.path.dirname(f)
    t00 = time.time()
    for k, (n, desc, new) in enumerate(ms):
        ml = list(lines)
        ml[n - 1] = new
        open(path, "w").write("".join(ml))
        rec = dict(line=n, change=desc, original=lines[n - 1].strip()[:160])
        b = sh("cd %s && go build %s && go vet -vettool=/bin/true %s 2>/dev/null; go build ./..." % (R, pkg, pkg))
        if b.returncode != 0:
            rec["result"] = "does not compile"
        else:
            caught = []
            for p in props:
                try:
                    r = sh("cd %s && VERIF_REPO=%s VERIF_JOBS=%s ./check %s --no-evidence --tier quick" % (V, R, jobs, p), timeout=1800)
                    out = r.stdout + r.stderr
                    if r.returncode == 1:
                        caught.append([p] + sorted(set(re.findall(r"^  scenario=(\S+) kind=(\S+)", out, re.M)))[:2])
                        break
                    if r.returncode not in (0, 1):
                        caught.append([p, "machinery exit %d" % r.returncode])
                        break
                except subprocess.TimeoutExpired:
                    caught.append([p, "timeout"])
                    break
            rec["result"] = "caught" if caught else "SURVIVED"
            rec["by"] = caught
        res["mutants"].append(rec)
        print("%d/%d line %d %s: %s %s" % (k + 1, len(ms), n, desc, rec["result"], rec.get("by", "")), flush=True)
        json.dump(res, open(outp, "w"), indent=1)
    open(path, "w").write(orig)
    sh("rm -rf " + R)
    s = [m for m in res["mutants"] if m["result"] == "SURVIVED"]
    res["summary"] = dict(total=len(res["mutants"]), compiled=len([m for m in res["mutants"] if m["result"] != "does not compile"]),
                          caught=len([m for m in res["mutants"] if m["result"] == "caught"]), survived=len(s), wall_s=round(time.time() - t00))
    json.dump(res, open(outp, "w"), indent=1)
    print(res["summary"])


if __name__ == "__main__":
    main()
