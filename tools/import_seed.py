#!/usr/bin/env python3
"""import_seed.py <ID> <a|b> <detected_by> <needs...>  — copies an agent's seeded change into /verif/seeded/<ID><x>/"""
import sys, os, json, shutil, glob
pid, x, detected = sys.argv[1], sys.argv[2], sys.argv[3]
needs = " ".join(sys.argv[4:])
src = os.environ.get("SEED_SRC", "/tmp/mut/out") + f"/{pid}"
dst = f"/verif/seeded/{pid}{x}"
os.makedirs(dst, exist_ok=True)
shutil.copy(f"{src}/{x}.diff", f"{dst}/patch.diff")
for f in glob.glob(f"{src}/zz_demo_{pid}{x}*_test.go"):
    shutil.copy(f, dst)
if os.path.exists(f"{src}/notes.md"):
    shutil.copy(f"{src}/notes.md", f"{dst}/agent_notes.md")
meta = {"property": pid, "variant": x, "needs_to_manifest": needs, "detected_by": detected,
        "ran": [f"git -C /repo apply seeded/{pid}{x}/patch.diff; ./check {pid} --tier quick; git -C /repo checkout -- .  (see detected_by)"],
        "confirmation": "pending"}
mp = f"{dst}/meta.json"
if os.path.exists(mp):
    old = json.load(open(mp)); old.update({k: v for k, v in meta.items() if k != "confirmation"}); meta = old
json.dump(meta, open(mp, "w"), indent=1)
print("imported", dst)
