#!/bin/sh
# Runs the repository's own test suite (guard off, untouched sources) inside a private network
# namespace (the distributed tests bind fixed loopback ports). usage: baseline.sh <repo-dir> <log>
R=${1:-/repo}; L=${2:-/var/tmp/baseline.log}
export GOFLAGS=-mod=mod GOPROXY=off GOSUMDB=off GOTOOLCHAIN=local
unshare -n sh -c "ip link set lo up; cd $R && go test -p 1 -vet=off -count=1 -timeout 25m -json ./... " > $L 2>&1
python3 - "$L" <<'PY'
import json,sys
res={}
for l in open(sys.argv[1]):
    try: e=json.loads(l)
    except Exception: continue
    if e.get('Test') and e.get('Action') in ('pass','fail','skip'):
        res[e['Package']+'::'+e['Test']]=e['Action']
base=json.load(open('/root/.vp/BASELINE.json'))
bad=[t for t in base['stable_pass'] if res.get(t)!='pass']
print("stable baseline tests:",len(base['stable_pass']),"not passing:",len(bad))
for t in bad[:40]: print("  ",t,res.get(t))
PY
