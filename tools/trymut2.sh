#!/bin/sh
# usage: trymut2.sh <patch> <ID> [check args...]  — like trymut.sh but on a private clone of /repo (VERIF_REPO), so that
# several can run side by side and /repo stays untouched
P=$1; ID=$2; shift 2
R=/var/tmp/trymut2-$$
rm -rf $R; git clone -q /repo $R || exit 9
cd $R && git apply "$P" || { echo "PATCH DOES NOT APPLY"; rm -rf $R; exit 9; }
cd /verif && VERIF_REPO=$R ./check $ID --no-evidence "$@" 2>&1 | grep -E "^VIOLATION|quick:|thorough:|MACHINERY|^  scenario=" | cut -c1-300 | head -${TRYMUT_LINES:-12}
rm -rf $R
