#!/usr/bin/env python3
"""Regenerates /verif/MANIFEST.json from the table below."""
import json, os
V = os.path.dirname(os.path.dirname(os.path.abspath(__file__)))
props = [json.loads(l) for l in open(os.path.join(V, "properties.jsonl"))]

SCHED_NOTE = ("Trusted base: the instrumenter (import substitution of sync, sync/atomic, time; go/select/map-range rewriting) preserves "
              "the behaviour of the code; executions are sequentially consistent; plain unsynchronised accesses are not scheduling points; "
              "harness sizes and deviation bounds are as listed in the evidence file, nothing is claimed beyond them.")

# id -> (category, text, design_ref, technique, note)
CLAIMS = {
 "C01": ("model_checking", "Stateless exploration of the real process runtime under a controlled scheduler: every schedule of 2-4 racing senders/killers/timers against one probe process (and one meta process) within the deviation bound is executed and the overlap oracle is evaluated on each.", "3 C01",
         "stateless schedule enumeration (preemption bounding + HB cache) on the instrumented implementation", SCHED_NOTE),
 "C02": ("model_checking", "Every schedule within the bound of concurrent sends (pid/name/alias, priorities, bounded mailboxes, fallback, requests, exit signals, delayed send vs cancel, meta mailbox) against the sleep/wake-up transitions of the real receiver; conservation and lost-wake-up oracles at quiescence.", "3 C02",
         "stateless schedule enumeration on the instrumented implementation", SCHED_NOTE),
 "C03": ("model_checking", "Every schedule within the bound of two senders (node API and sender processes) enqueueing 2-5 messages over every assignment of Normal/High/Max priorities, exit signals, down notifications, log messages and addressing modes against a parked or free-running receiver (actor and meta process); per-sender FIFO and strict-class oracles on the handling order.", "3 C03",
         "stateless schedule enumeration on the instrumented implementation", SCHED_NOTE),
 "C04": ("model_checking", "Races: every schedule within the bound of one link/monitor request (pid, name, alias, event; spawn with LinkChild) against the target's termination or unregistration. Histories: breadth-first search over link/unlink/monitor/demonitor/unregister/register/terminate sequences on the real node against a relation-set reference model, notifications and relation table compared after every event.", "3 C04",
         "stateless schedule enumeration + explicit-state BFS over operation histories on the real node", SCHED_NOTE),
 "C06": ("model_checking", "Races: every schedule within the bound of concurrent claims of one name/event (SpawnRegister, Process.RegisterName, Node.RegisterName), claim vs termination, unregister vs register, concurrent identifier generation. Histories: BFS over register/unregister/alias/event/link/monitor/meta/terminate sequences against a registry model with table-integrity invariants in every state. Identifiers: complete windows of 2^20 consecutive counter values at the bit boundaries of MakeRef.", "3 C06",
         "stateless schedule enumeration + explicit-state BFS + exhaustive window enumeration on the real node", SCHED_NOTE),
 "C07": ("model_checking", "Every schedule (and early timer firing) within the bound of 1-2 callers issuing 2-3 calls against callees that answer late, twice, ten or eleven times, through a helper process, by name/alias, from a meta process, or terminate; correlation oracle on every returned value.", "3 C07",
         "stateless schedule enumeration with virtual timers as scheduling alternatives", SCHED_NOTE),
 "C08": ("model_checking", "Explicit-state BFS over event histories (child deaths with normal/shutdown/abnormal reasons, arrival of requested exits in any order, StartChild/DisableChild/EnableChild, exit from a stranger) driving the REAL act.Supervisor (ProcessInit, ProcessRun, handleAction and the three state machines) through a fake gen.Process with a real mailbox, for 33 configurations (type x strategy x KeepOrder x significant x auto-shutdown x HandleChild); a reference model written from the documented semantics predicts running children, generations, stop requests and start order in every state reached by a history that stays within the model; panic, stale listing, orphan and stuck-shutdown invariants hold on all histories.", "3 C08",
         "explicit-state BFS over event histories on the real supervisor code, canonical-state deduplication with a no-dedup prefix", "Trusted base: the fake gen.Process (about 120 lines: fresh pids for Spawn, name table, recorded SendExit, exit signals pushed into the real Urgent queue) stands for the node; the reference model is my reading of the documented semantics; bounds: <=3 children, history depth as reported."),
 "C09": ("model_checking", "Complete enumeration of failure-time sequences (length <= Intensity+2/+3 over gaps {0,1ms,500ms,P-1ms,P,P+1ms,2P}, Intensity 1..4, Period 1..3 s) against the real supCheckRestartIntensity under a virtual clock, and of gap sequences through the four real supervisor types (fake process, virtual clock): gives up exactly when more than Intensity failures lie within the period, with ErrSupervisorRestartsExceeded, after all children stopped.", "3 C09",
         "exhaustive enumeration of timing sequences on the real code under a virtual clock", "Trusted base: virtual clock shim; a failure exactly Period old is accepted either way; gap alphabet as listed."),
 "C10": ("model_checking", "Fault-point enumeration on the real node: for supervision trees (each supervisor type, nested supervisors, pool, application {supervisor, worker}, node {tree, free process}) one Kill of every member is placed at every scheduling point (delay bound 1; 2 in the thorough tier) of the steady state, an ongoing restart, an ongoing shutdown, ApplicationStop/StopForce and Node.Stop; start-up failures of every member; orphan oracle at quiescence and liveness snapshot at the moment a graceful stop returns.", "3 C10",
         "fault-point enumeration = stateless schedule enumeration with a low-priority one-operation fault thread", SCHED_NOTE),
 "C11": ("model_checking", "Complete enumeration of a value space: 30 leaf types with the boundary values of the statement (string lengths 0/1/255/256/65533..65536, atoms 254..256, errors incl. registered sentinels, wrapped, '%' texts and 32767/32768/65535/65536 bytes, binaries around 4096 and 65536, extreme numbers, +-0, Inf, NaN payloads, extreme and located times, registered structs, named types, a custom marshaler) closed twice under []T, [0..2]T, map[string]T, map[T]string, []any and struct{A any} with nil and empty at every collection position, x 5 cache configurations built by the real handshake code from an introduction that travelled through EDF, plus a type registered after the introduction. Oracle: Encode error = rejection; otherwise Decode succeeds, consumes every byte, same dynamic type, equal value (NaN by bits, nil != empty except []byte), registered sentinels identical where the error cache is negotiated.", "3 C11",
         "exhaustive small-scope input enumeration on the real codec", "Trusted base: the equality function of the harness; values outside the boundary alphabet and type nesting deeper than two levels are not covered."),
 "C12": ("model_checking", "Two real nodes joined by in-memory links after the real handshake. Input enumeration: 18 payload sizes (0..70000, around every buffer doubling and the compression threshold) x {none,gzip,zlib,lzw} x {pid,name,alias} x {send,call,important}; peer max-message-size boundaries; EVERY cut of one and of two back-to-back frames into <=3 reads. Schedule enumeration: two concurrent senders over 1-2 pooled links, important sends with remote refusal reasons and traffic in the other direction, and a receive-queue kernel (recorded frames trickling into a stand-alone receiving connection, preemption bound 2). Oracle: received exactly once by the addressee with the true sender and an equal payload, own reply, truthful important result.", "3 C12",
         "exhaustive input/segmentation enumeration + stateless schedule enumeration on two real nodes", SCHED_NOTE + " The two nodes run in one process and are joined by in-memory links (vconn) whose reads, holds, cuts and read sizes the harness owns; the real handshake, protocol, flusher and network table code run unmodified; real TCP behaviour (kernel buffering, RST vs FIN) is not modelled."),
 "C13": ("model_checking", "Two real nodes, pool of 1-2 links with a harness-held (slow) link in every position, sender and receiver process ids covering the residue classes 0 and non-0 of id%255 (1001, 1019, 1020), compressed/uncompressed mixes, a link joining between two sends, and the receive-queue kernel; every schedule within the delay bound; oracle: sequence numbers of one pair arrive in order.", "3 C13",
         "stateless schedule enumeration (delay bounding; preemption bounding for the kernel) on two real nodes", SCHED_NOTE + " The two nodes run in one process and are joined by in-memory links (vconn) whose reads, holds, cuts and read sizes the harness owns; the real handshake, protocol, flusher and network table code run unmodified; real TCP behaviour (kernel buffering, RST vs FIN) is not modelled."),
 "C14": ("model_checking", "Fault-point enumeration on two real nodes: a connection cut (or the remote target's termination) is placed at every scheduling point of a link/monitor request on a remote pid, name, alias, event and node, of calls, important and plain sends in flight, and of an established relation whose target is killed concurrently; one sequential history restarts the peer under the same name with a later creation and drives every operation with identifiers of the old incarnation against processes that reuse the same ids. Oracle: acknowledged relation => exactly one notification with the right reason, refused => none, nobody stays blocked, old identifiers refused and never delivered.", "3 C14",
         "fault-point enumeration = stateless schedule enumeration with a low-priority one-operation fault thread on two real nodes", SCHED_NOTE + " The two nodes run in one process and are joined by in-memory links (vconn) whose reads, holds, cuts and read sizes the harness owns; the real handshake, protocol, flusher and network table code run unmodified; real TCP behaviour (kernel buffering, RST vs FIN) is not modelled."),
 "C20": ("model_checking", "Complete enumeration of a spec grammar (13 minute x 8 hour x 14 day x 8 month x 15 weekday field forms: lists, ranges, steps, L, nL, w#n; a third of the cross product in the quick tier, all of it in the thorough tier) x every 5th (thorough: every) minute of windows around leap day, year end, month ends and every DST transition of five zones, against a set-based crontab evaluator; every one-token mutation of valid specs through AddJob; JobSchedule/Schedule against the evaluator; BFS over AddJob/RemoveJob/EnableJob/DisableJob/tick histories of the real scheduler under the virtual clock (firings = due minutes of present, enabled jobs, once each).", "3 C20",
         "exhaustive small-scope input enumeration + explicit-state BFS over scheduler histories under a virtual clock", "Trusted base: the reference evaluator (about 120 lines, written from the crontab rules independently of the masks); windows and grammar as listed; years outside 2023-2025 are not covered."),
 "C17": ("model_checking", "Histories: BFS over start/stop/stop-force/unload/member-exit sequences for each mode against a lifecycle model (state, live members, callback counts, reasons) on the real node; all dependency graphs x failing member positions; races: every schedule within the bound of concurrent member deaths, stop vs crash, start vs start, stop vs stop, member death during start-up.", "3 C17",
         "explicit-state BFS over operation histories + stateless schedule enumeration on the real node", SCHED_NOTE),
 "C18": ("model_checking", "Histories: BFS over publish/forged publish/link/unlink/monitor/demonitor/unregister/register/owner kill/subscriber exit sequences for buffer sizes 0..2 with and without notifications against a subscription model (publications handled, buffer returned by subscribe, exit/down on event end, EventStart/EventStop). Races: every schedule within the bound of subscribe vs publish, two token holders publishing, register vs zero-token publish.", "3 C18",
         "explicit-state BFS over operation histories + stateless schedule enumeration on the real node", SCHED_NOTE + " Remote subscribers are exercised by the C12/C14 harnesses only as far as stated there."),
 "C19": ("model_checking", "Every schedule within the bound of 1-2 clients sending/calling through a real act.Pool (size 1-3, bounded worker mailboxes, parked worker, dead worker, worker crash, Add/RemoveWorkers); exactly-once, original-sender, own-reply, drop-accounting and ring-membership oracles.", "3 C19",
         "stateless schedule enumeration (delay bounding) on the instrumented implementation", SCHED_NOTE),
 "C05": ("model_checking", "Every schedule within the bound of single causes and racing pairs of termination causes (handler error, panic, Kill, parent/stranger exit signals, busy and waiting targets) on the real node; terminate-once, finality and reason oracles incl. link/monitor observers.", "3 C05",
         "stateless schedule enumeration on the instrumented implementation", SCHED_NOTE),
}
NA_REASON = "check not built yet (work in progress); no verdict is claimed"

m = {
 "version": 1,
 "setup_cmd": "./setup.sh",
 "hooks": {"guard": "verif",
           "enable": "no hook code lives in /repo: ./check instruments the current tree into a scratch directory and builds with `go test -c -tags verif -vet=off -modfile=$W/go.mod -overlay=$W/overlay.json` (harness files carry //go:build verif)",
           "baseline_off_cmd": "cd /repo && go test -vet=off -count=1 -timeout 25m ./...",
           "source_commits": [], "add_only": True},
 "engines": [
  {"name": "vsched", "path": "engine/vsched", "serves_properties": sorted(CLAIMS), "kind_free_text": "controlled scheduler + stateless DFS over schedules (preemption/delay bounding, HB fingerprint cache, virtual time, in-memory links)"},
  {"name": "vinstr", "path": "engine/vinstr", "serves_properties": sorted(CLAIMS), "kind_free_text": "build-time instrumenter producing an overlay from /repo's current tree"},
 ],
 "checks": [],
 "not_applicable": [],
 "notes": "Checks: ./check <ID> [--tier quick|thorough]; replay: ./check <ID> --replay <file>. Known findings: known_findings.json.",
}
for p in props:
    i = p["id"]
    if i in CLAIMS:
        cat, text, ref, tech, note = CLAIMS[i]
        m["checks"].append({"property_id": i, "quick_cmd": "./check %s --tier quick" % i, "thorough_cmd": "./check %s --tier thorough" % i,
                            "evidence_file": "/verif/evidence/%s.json" % i, "replay_cmd_template": "./check %s --replay {path}" % i,
                            "engine": "vsched", "level_claimed": {"category": cat, "text": text, "design_ref": "DESIGN.md section " + ref},
                            "level_note": note, "technique": tech})
    else:
        m["not_applicable"].append({"property_id": i, "reason": NA_REASON})
json.dump(m, open(os.path.join(V, "MANIFEST.json"), "w"), indent=1)
print("claimed:", sorted(CLAIMS))
