#!/usr/bin/env python3
"""Applies every kept property-breaking change (seeded/<ID><x>/patch.diff from the sub-agents, selfmut/*.diff
of my own) to /repo, one at a time, runs the quick check of its property, reverts, and writes
seeded/detection.json + seeded/DETECTION.md. Works on a scratch clone of /repo's HEAD under /var/tmp.

usage: run_mutations.py [ID-prefix ...]"""
import glob, json, os, re, subprocess, sys, time
V = os.path.dirname(os.path.dirname(os.path.abspath(__file__)))
only = sys.argv[1:]
# the changes are applied to a scratch clone of /repo (removed at the end), so that /repo stays usable meanwhile
R = os.environ.get("MUT_REPO", "/var/tmp/mutrepo")  # several instances may run side by side with different clones


def sh(cmd, **kw):
    return subprocess.run(cmd, shell=True, capture_output=True, text=True, **kw)


assert sh("git -C /repo status --short").stdout.strip() == "", "/repo is not clean"
sh("rm -rf %s && git clone -q /repo %s" % (R, R))
items = []
for d in sorted(glob.glob(V + "/seeded/C*/")):
    name = os.path.basename(d.rstrip("/"))
    items.append((name, name[:3], d + "patch.diff", "sub-agent"))
for p in sorted(glob.glob(V + "/selfmut/*.diff")):
    name = os.path.basename(p)[:-5]
    items.append((name, name[:3], p, "own"))
outp = V + "/seeded/detection.json"
res = json.load(open(outp)) if os.path.exists(outp) else {}
for name, pid, patch, origin in items:
    if only and not any(name.startswith(o) for o in only):
        continue
    if os.environ.get("RESUME") and name in res and res[name].get("applies") is not None:
        continue
    t0 = time.time()
    r = sh("git -C %s apply --check %s" % (R, patch))
    if r.returncode != 0:
        res[name] = dict(property=pid, origin=origin, applies=False, note=r.stderr.strip()[:300])
        print(name, "DOES NOT APPLY")
        cur = json.load(open(outp)) if os.path.exists(outp) else {}
        cur[name] = res[name]
        json.dump(cur, open(outp, "w"), indent=1, sort_keys=True)
        continue
    sh("git -C %s apply %s" % (R, patch))
    try:
        r = sh("cd %s && VERIF_REPO=%s VERIF_JOBS=%s ./check %s --no-evidence --tier quick" % (V, R, os.environ.get("MUT_JOBS", "16"), pid), timeout=3600)
        out = r.stdout + r.stderr
    except subprocess.TimeoutExpired as e:
        out = "TIMEOUT"
        r = None
    finally:
        sh("git -C %s checkout -- ." % R)
    viol = sorted(set(re.findall(r"^  scenario=(\S+) kind=(\S+)", out, re.M)))
    mach = re.findall(r"^MACHINERY.*", out, re.M)
    res[name] = dict(property=pid, origin=origin, applies=True, exit=(r.returncode if r else None),
                     detected=bool(r and r.returncode == 1 and viol), violations=[list(v) for v in viol][:12],
                     n_violations=len(viol), machinery=mach[:3], wall_s=round(time.time() - t0))
    print(name, "exit", res[name]["exit"], "violations", len(viol), [v[0] + ":" + v[1] for v in viol[:3]], flush=True)
    # read-modify-write: another instance may have added entries meanwhile
    cur = json.load(open(outp)) if os.path.exists(outp) else {}
    cur[name] = res[name]
    res = cur
    json.dump(res, open(outp + ".%d" % os.getpid(), "w"), indent=1, sort_keys=True)
    os.replace(outp + ".%d" % os.getpid(), outp)
sh("rm -rf " + R)
res = json.load(open(outp)) if os.path.exists(outp) else res
# markdown table
lines = ["| change | origin | check exit | caught by (scenario : kind, first few) |", "|---|---|---|---|"]
for name in sorted(res):
    x = res[name]
    if not x.get("applies"):
        lines.append("| %s | %s | patch no longer applies | %s |" % (name, x["origin"], x.get("note", "")[:80]))
        continue
    lines.append("| %s | %s | %s | %s |" % (name, x["origin"], x["exit"], "; ".join("%s : %s" % tuple(v) for v in x["violations"][:4]) or "NOT DETECTED"))
open(V + "/seeded/DETECTION.md", "w").write("\n".join(lines) + "\n")
print("written", outp)
