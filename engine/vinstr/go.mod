module verif.local/vinstr

go 1.20
