// vinstr: build-time instrumentation of the code under test. It parses the *current* sources of
// the kernel packages, substitutes the imports of sync, sync/atomic and time by the scheduler's
// shims, rewrites go statements, channel operations and map ranges, and emits an overlay plus an
// alternative go.mod so that /repo itself is never modified.
package main

import (
	"bytes"
	"encoding/json"
	"fmt"
	"go/ast"
	"go/format"
	"go/importer"
	"go/parser"
	"go/token"
	"go/types"
	"io"
	"os"
	"os/exec"
	"path/filepath"
	"strconv"
	"strings"
)

var subst = map[string][2]string{
	"sync/atomic": {"atomic", "verif.local/vsched/vatomic"},
	"sync":        {"sync", "verif.local/vsched/vsync"},
	"time":        {"time", "verif.local/vsched/vtime"},
}

type listPkg struct {
	ImportPath string
	Export     string
	Dir        string
	GoFiles    []string
}

var (
	fset     = token.NewFileSet()
	info     *types.Info
	notes    []string
	mapRange = map[*ast.RangeStmt]bool{}
)

// usage: vinstr <repo> <out> <harness-root> <vsched-dir> <pkg>...
func main() {
	repo, out, hroot, vdir := os.Args[1], os.Args[2], os.Args[3], os.Args[4]
	pkgs := os.Args[5:]
	args := []string{"list", "-export", "-deps", "-json=ImportPath,Export,Dir,GoFiles"}
	for _, p := range pkgs {
		args = append(args, "./"+p)
	}
	cmd := exec.Command("go", args...)
	cmd.Dir = repo
	cmd.Stderr = os.Stderr
	lst, err := cmd.Output()
	if err != nil {
		fmt.Fprintln(os.Stderr, "ERROR go list:", err)
		os.Exit(2)
	}
	exports := map[string]string{}
	byDir := map[string]listPkg{}
	dec := json.NewDecoder(bytes.NewReader(lst))
	for dec.More() {
		var p listPkg
		if err := dec.Decode(&p); err != nil {
			fmt.Fprintln(os.Stderr, "ERROR go list decode:", err)
			os.Exit(2)
		}
		exports[p.ImportPath] = p.Export
		byDir[p.Dir] = p
	}
	imp := importer.ForCompiler(fset, "gc", func(path string) (io.ReadCloser, error) {
		e := exports[path]
		if e == "" {
			return nil, fmt.Errorf("no export data for %s", path)
		}
		return os.Open(e)
	})
	overlay := map[string]string{}
	nfiles := 0
	for _, p := range pkgs {
		dir := filepath.Join(repo, p)
		lp, ok := byDir[dir]
		if !ok {
			fmt.Fprintln(os.Stderr, "ERROR package not listed:", dir)
			os.Exit(2)
		}
		var files []*ast.File
		var names []string
		for _, n := range lp.GoFiles {
			af, err := parser.ParseFile(fset, filepath.Join(dir, n), nil, parser.ParseComments)
			if err != nil {
				fmt.Fprintln(os.Stderr, "ERROR parse:", err)
				os.Exit(2)
			}
			files = append(files, af)
			names = append(names, n)
		}
		info = &types.Info{Types: map[ast.Expr]types.TypeAndValue{}}
		conf := types.Config{Importer: imp, Error: func(err error) {}}
		conf.Check(lp.ImportPath, fset, files, info)
		for i, af := range files {
			src := filepath.Join(dir, names[i])
			dst := filepath.Join(out, "src", p, names[i])
			changed, err := rewrite(af, dst)
			if err != nil {
				fmt.Fprintln(os.Stderr, "ERROR", src, err)
				os.Exit(2)
			}
			if changed {
				overlay[src] = dst
				nfiles++
			}
		}
	}
	// harness files: <hroot>/<pkg>/x_test.go -> <repo>/<pkg>/zz_verif_x_test.go
	nh := 0
	filepath.Walk(hroot, func(path string, fi os.FileInfo, err error) error {
		if err != nil || fi.IsDir() || !strings.HasSuffix(path, ".go") {
			return nil
		}
		rel, _ := filepath.Rel(hroot, path)
		d, f := filepath.Split(rel)
		overlay[filepath.Join(repo, d, "zz_verif_"+f)] = path
		nh++
		return nil
	})
	b, _ := json.MarshalIndent(map[string]any{"Replace": overlay}, "", " ")
	os.WriteFile(filepath.Join(out, "overlay.json"), b, 0o644)
	gm, _ := os.ReadFile(filepath.Join(repo, "go.mod"))
	gm = append(gm, []byte("\nrequire verif.local/vsched v0.0.0\nreplace verif.local/vsched => "+vdir+"\n")...)
	os.WriteFile(filepath.Join(out, "go.mod"), gm, 0o644)
	gs, _ := os.ReadFile(filepath.Join(repo, "go.sum"))
	os.WriteFile(filepath.Join(out, "go.sum"), gs, 0o644)
	fmt.Printf("vinstr: %d files instrumented, %d harness files, %d map ranges sorted\n", nfiles, nh, len(mapRange))
	for _, n := range notes {
		fmt.Println("vinstr: note:", n)
	}
}

func isMap(e ast.Expr) bool {
	if tv, ok := info.Types[e]; ok && tv.Type != nil {
		_, ok := tv.Type.Underlying().(*types.Map)
		return ok
	}
	return false
}

func isConst(e ast.Expr) bool {
	if tv, ok := info.Types[e]; ok {
		return tv.Value != nil || tv.IsNil()
	}
	return false
}

func simpleExpr(e ast.Expr) bool {
	switch x := e.(type) {
	case *ast.Ident:
		return true
	case *ast.SelectorExpr:
		return simpleExpr(x.X)
	case *ast.ParenExpr:
		return simpleExpr(x.X)
	case *ast.StarExpr:
		return simpleExpr(x.X)
	}
	return false
}

// for k, v := range m {B}  =>  for _, k := range vsched.SortedKeys(m) { v, ok := m[k]; if !ok {continue}; B }
func rewriteMapRange(r *ast.RangeStmt, need *bool) {
	if mapRange[r] || !isMap(r.X) {
		return
	}
	pos := fset.Position(r.Pos()).String()
	if r.Tok != token.DEFINE && (r.Key != nil || r.Value != nil) {
		notes = append(notes, "map range with '=' left as is: "+pos)
		return
	}
	if !simpleExpr(r.X) {
		notes = append(notes, "map range over a complex expression left as is: "+pos)
		return
	}
	mapRange[r] = true
	*need = true
	keyName := "__vk"
	if id, ok := r.Key.(*ast.Ident); ok && id.Name != "_" {
		keyName = id.Name
	}
	var pre []ast.Stmt
	if id, ok := r.Value.(*ast.Ident); ok && id.Name != "_" {
		pre = append(pre,
			&ast.AssignStmt{Lhs: []ast.Expr{ast.NewIdent(id.Name), ast.NewIdent("__vok")}, Tok: token.DEFINE,
				Rhs: []ast.Expr{&ast.IndexExpr{X: r.X, Index: ast.NewIdent(keyName)}}},
			&ast.IfStmt{Cond: &ast.UnaryExpr{Op: token.NOT, X: ast.NewIdent("__vok")}, Body: &ast.BlockStmt{List: []ast.Stmt{&ast.BranchStmt{Tok: token.CONTINUE}}}},
			&ast.AssignStmt{Lhs: []ast.Expr{ast.NewIdent("_")}, Tok: token.ASSIGN, Rhs: []ast.Expr{ast.NewIdent(id.Name)}})
	} else {
		pre = append(pre,
			&ast.IfStmt{Init: &ast.AssignStmt{Lhs: []ast.Expr{ast.NewIdent("_"), ast.NewIdent("__vok")}, Tok: token.DEFINE,
				Rhs: []ast.Expr{&ast.IndexExpr{X: r.X, Index: ast.NewIdent(keyName)}}},
				Cond: &ast.UnaryExpr{Op: token.NOT, X: ast.NewIdent("__vok")}, Body: &ast.BlockStmt{List: []ast.Stmt{&ast.BranchStmt{Tok: token.CONTINUE}}}})
	}
	r.Key = ast.NewIdent("_")
	r.Value = ast.NewIdent(keyName)
	r.Tok = token.DEFINE
	r.X = vcall("SortedKeys", r.X)
	r.Body.List = append(pre, r.Body.List...)
}

func rewrite(f *ast.File, dst string) (bool, error) {
	changed := false
	for _, imp := range f.Imports {
		path, _ := strconv.Unquote(imp.Path.Value)
		if s, ok := subst[path]; ok {
			imp.Path.Value = strconv.Quote(s[1])
			if imp.Name == nil {
				imp.Name = ast.NewIdent(s[0])
			}
			changed = true
		}
	}
	needVsched := false
	// map ranges first (uses type information of the untouched tree)
	ast.Inspect(f, func(n ast.Node) bool {
		if r, ok := n.(*ast.RangeStmt); ok {
			rewriteMapRange(r, &needVsched)
		}
		return true
	})
	ast.Inspect(f, func(n ast.Node) bool {
		switch b := n.(type) {
		case *ast.BlockStmt:
			walkList(b.List, &needVsched)
		case *ast.CaseClause:
			walkList(b.Body, &needVsched)
		case *ast.CommClause:
			walkList(b.Body, &needVsched)
		}
		return true
	})
	if needVsched {
		changed = true
		addImport(f, "verif.local/vsched")
	}
	if !changed {
		return false, nil
	}
	var buf bytes.Buffer
	if err := format.Node(&buf, fset, f); err != nil {
		return false, err
	}
	os.MkdirAll(filepath.Dir(dst), 0o755)
	return true, os.WriteFile(dst, buf.Bytes(), 0o644)
}

var selCounter int
var generated = map[*ast.SelectStmt]bool{}

func walkList(list []ast.Stmt, need *bool) {
	for i, s := range list {
		list[i] = rewriteStmt(s, need)
	}
}

func rewriteStmt(s ast.Stmt, need *bool) ast.Stmt {
	switch x := s.(type) {
	case *ast.LabeledStmt:
		_, wasSelect := x.Stmt.(*ast.SelectStmt)
		x.Stmt = rewriteStmt(x.Stmt, need)
		if _, still := x.Stmt.(*ast.SelectStmt); wasSelect && !still {
			// the label of a select may be the target of "break L" as well as of "goto L": keep it on a
			// statement that both may refer to (a one-armed switch around the rewritten block)
			x.Stmt = &ast.SwitchStmt{Body: &ast.BlockStmt{List: []ast.Stmt{&ast.CaseClause{List: nil, Body: []ast.Stmt{x.Stmt}}}}}
		}
		return x
	case *ast.GoStmt:
		*need = true
		return goToCall(x)
	case *ast.SelectStmt:
		if generated[x] {
			return x
		}
		*need = true
		return rewriteSelect(x)
	case *ast.ExprStmt:
		if u, ok := x.X.(*ast.UnaryExpr); ok && u.Op == token.ARROW {
			*need = true
			return rewriteSelect(&ast.SelectStmt{Body: &ast.BlockStmt{List: []ast.Stmt{&ast.CommClause{Comm: x}}}})
		}
		if c, ok := x.X.(*ast.CallExpr); ok {
			if id, ok := c.Fun.(*ast.Ident); ok && id.Name == "close" && len(c.Args) == 1 {
				*need = true
				c.Fun = &ast.SelectorExpr{X: ast.NewIdent("vsched"), Sel: ast.NewIdent("Close")}
			}
		}
	case *ast.SendStmt:
		*need = true
		return rewriteSelect(&ast.SelectStmt{Body: &ast.BlockStmt{List: []ast.Stmt{&ast.CommClause{Comm: x}}}})
	case *ast.AssignStmt:
		if len(x.Rhs) == 1 {
			if u, ok := x.Rhs[0].(*ast.UnaryExpr); ok && u.Op == token.ARROW {
				*need = true
				// x := <-ch  => select with one case whose body is empty; variables hoisted by rewriteSelect
				return rewriteSelectHoistOuter(x)
			}
		}
	}
	return s
}

func vcall(name string, args ...ast.Expr) *ast.CallExpr {
	return &ast.CallExpr{Fun: &ast.SelectorExpr{X: ast.NewIdent("vsched"), Sel: ast.NewIdent(name)}, Args: args}
}

func define(name string, rhs ast.Expr) ast.Stmt {
	return &ast.AssignStmt{Lhs: []ast.Expr{ast.NewIdent(name)}, Tok: token.DEFINE, Rhs: []ast.Expr{rhs}}
}

func assign(name string, rhs ast.Expr) ast.Stmt {
	return &ast.AssignStmt{Lhs: []ast.Expr{ast.NewIdent(name)}, Tok: token.ASSIGN, Rhs: []ast.Expr{rhs}}
}

func intLit(i int) ast.Expr { return &ast.BasicLit{Kind: token.INT, Value: strconv.Itoa(i)} }

// x := <-ch as a statement: keep the variables visible after the statement.
func rewriteSelectHoistOuter(a *ast.AssignStmt) ast.Stmt {
	selCounter++
	n := selCounter
	chName := fmt.Sprintf("__vch%d", n)
	u := a.Rhs[0].(*ast.UnaryExpr)
	var pre []ast.Stmt
	pre = append(pre, define(chName, u.X))
	recv := &ast.AssignStmt{Lhs: a.Lhs, Tok: token.ASSIGN, Rhs: []ast.Expr{&ast.UnaryExpr{Op: token.ARROW, X: ast.NewIdent(chName)}}}
	if a.Tok == token.DEFINE {
		for i, l := range a.Lhs {
			id := l.(*ast.Ident)
			if id.Name == "_" {
				continue
			}
			if i == 0 {
				pre = append(pre, define(id.Name, vcall("ElemZero", ast.NewIdent(chName))))
			} else {
				pre = append(pre, define(id.Name, ast.NewIdent("false")))
			}
			pre = append(pre, &ast.AssignStmt{Lhs: []ast.Expr{ast.NewIdent("_")}, Tok: token.ASSIGN, Rhs: []ast.Expr{ast.NewIdent(id.Name)}})
		}
	}
	sel := &ast.SelectStmt{Body: &ast.BlockStmt{List: []ast.Stmt{&ast.CommClause{Comm: recv}}}}
	// cannot wrap in a block (variables must stay in scope): emit statements inline via a BlockStmt-less trick is
	// impossible in go/ast, so this spike only supports the form inside its own block when no variable is defined.
	return &ast.BlockStmt{List: append(pre, rewriteSelect(sel))}
}

func rewriteSelect(sel *ast.SelectStmt) ast.Stmt {
	selCounter++
	n := selCounter
	selVar := fmt.Sprintf("__vsel%d", n)
	label := fmt.Sprintf("__vpoll%d", n)
	var pre []ast.Stmt
	var pollCases []ast.Stmt
	var bodyCases []ast.Stmt
	var waitArgs []ast.Expr
	defaultIdx := -1
	ncomm := 0
	for _, cs := range sel.Body.List {
		cc := cs.(*ast.CommClause)
		idx := ncomm
		if cc.Comm == nil {
			defaultIdx = 1000
			bodyCases = append(bodyCases, &ast.CaseClause{List: []ast.Expr{intLit(1000)}, Body: cc.Body})
			continue
		}
		ncomm++
		chName := fmt.Sprintf("__vch%d_%d", n, idx)
		var comm ast.Stmt
		switch c := cc.Comm.(type) {
		case *ast.SendStmt:
			valName := fmt.Sprintf("__vval%d_%d", n, idx)
			pre = append(pre, define(chName, c.Chan), define(valName, c.Value))
			comm = &ast.SendStmt{Chan: ast.NewIdent(chName), Value: ast.NewIdent(valName)}
		case *ast.ExprStmt:
			u := c.X.(*ast.UnaryExpr)
			pre = append(pre, define(chName, u.X))
			comm = &ast.ExprStmt{X: &ast.UnaryExpr{Op: token.ARROW, X: ast.NewIdent(chName)}}
		case *ast.AssignStmt:
			u := c.Rhs[0].(*ast.UnaryExpr)
			pre = append(pre, define(chName, u.X))
			if c.Tok == token.DEFINE {
				for i, l := range c.Lhs {
					id := l.(*ast.Ident)
					if id.Name == "_" {
						continue
					}
					if i == 0 {
						pre = append(pre, define(id.Name, vcall("ElemZero", ast.NewIdent(chName))))
					} else {
						pre = append(pre, define(id.Name, ast.NewIdent("false")))
					}
					pre = append(pre, &ast.AssignStmt{Lhs: []ast.Expr{ast.NewIdent("_")}, Tok: token.ASSIGN, Rhs: []ast.Expr{ast.NewIdent(id.Name)}})
				}
			}
			comm = &ast.AssignStmt{Lhs: c.Lhs, Tok: token.ASSIGN, Rhs: []ast.Expr{&ast.UnaryExpr{Op: token.ARROW, X: ast.NewIdent(chName)}}}
		}
		var one ast.Stmt
		switch c := comm.(type) {
		case *ast.SendStmt:
			one = &ast.IfStmt{Cond: vcall("TrySend", c.Chan, c.Value), Body: &ast.BlockStmt{List: []ast.Stmt{assign(selVar, intLit(idx))}}}
		case *ast.ExprStmt:
			u := c.X.(*ast.UnaryExpr)
			one = &ast.IfStmt{
				Init: &ast.AssignStmt{Lhs: []ast.Expr{ast.NewIdent("_"), ast.NewIdent("_"), ast.NewIdent("__vgot")}, Tok: token.DEFINE, Rhs: []ast.Expr{vcall("TryRecv", u.X)}},
				Cond: ast.NewIdent("__vgot"), Body: &ast.BlockStmt{List: []ast.Stmt{assign(selVar, intLit(idx))}}}
		case *ast.AssignStmt:
			u := c.Rhs[0].(*ast.UnaryExpr)
			lhs0 := c.Lhs[0]
			var lhs1 ast.Expr = ast.NewIdent("_")
			if len(c.Lhs) > 1 {
				lhs1 = c.Lhs[1]
			}
			one = &ast.IfStmt{
				Init: &ast.AssignStmt{Lhs: []ast.Expr{ast.NewIdent("__vv"), ast.NewIdent("__vok"), ast.NewIdent("__vgot")}, Tok: token.DEFINE, Rhs: []ast.Expr{vcall("TryRecv", u.X)}},
				Cond: ast.NewIdent("__vgot"),
				Body: &ast.BlockStmt{List: []ast.Stmt{
					&ast.AssignStmt{Lhs: []ast.Expr{lhs0, lhs1}, Tok: token.ASSIGN, Rhs: []ast.Expr{ast.NewIdent("__vv"), ast.NewIdent("__vok")}},
					assign(selVar, intLit(idx))}}}
		}
		waitArgs = append(waitArgs, ast.NewIdent(chName))
		pollCases = append(pollCases, &ast.CaseClause{List: []ast.Expr{intLit(idx)}, Body: []ast.Stmt{one}})
		bodyCases = append(bodyCases, &ast.CaseClause{List: []ast.Expr{intLit(idx)}, Body: cc.Body})
	}
	pre = append(pre, define(selVar, &ast.UnaryExpr{Op: token.SUB, X: intLit(1)}))
	loop := &ast.RangeStmt{
		Key: ast.NewIdent("_"), Value: ast.NewIdent("__vc"), Tok: token.DEFINE,
		X: vcall("SelectOrder", intLit(ncomm)),
		Body: &ast.BlockStmt{List: []ast.Stmt{
			&ast.SwitchStmt{Tag: ast.NewIdent("__vc"), Body: &ast.BlockStmt{List: pollCases}},
			&ast.IfStmt{Cond: &ast.BinaryExpr{X: ast.NewIdent(selVar), Op: token.GEQ, Y: intLit(0)}, Body: &ast.BlockStmt{List: []ast.Stmt{&ast.BranchStmt{Tok: token.BREAK}}}},
		}},
	}
	var onNone ast.Stmt
	if defaultIdx >= 0 {
		onNone = assign(selVar, intLit(defaultIdx))
	} else {
		onNone = &ast.BlockStmt{List: []ast.Stmt{&ast.ExprStmt{X: vcall("ChanWait", waitArgs...)}, &ast.BranchStmt{Tok: token.GOTO, Label: ast.NewIdent(label)}}}
	}
	after := &ast.IfStmt{
		Cond: &ast.BinaryExpr{X: ast.NewIdent(selVar), Op: token.LSS, Y: intLit(0)},
		Body: &ast.BlockStmt{List: []ast.Stmt{onNone}},
		Else: &ast.BlockStmt{List: []ast.Stmt{&ast.ExprStmt{X: vcall("ChanEvent")}}},
	}
	bodyCases = append(bodyCases, &ast.CaseClause{List: nil, Body: []ast.Stmt{&ast.ExprStmt{X: &ast.CallExpr{Fun: ast.NewIdent("panic"), Args: []ast.Expr{&ast.BasicLit{Kind: token.STRING, Value: `"vinstr: unreachable select arm"`}}}}}})
	body := &ast.SwitchStmt{Tag: ast.NewIdent(selVar), Body: &ast.BlockStmt{List: bodyCases}}
	var loopStmt ast.Stmt = loop
	if defaultIdx < 0 {
		loopStmt = &ast.LabeledStmt{Label: ast.NewIdent(label), Stmt: loop}
	}
	stmts := append(pre, loopStmt, after, body)
	return &ast.BlockStmt{List: stmts}
}

// go f(a, b) => { __f := f; __a0 := a; __a1 := b; vsched.Go(func(){ __f(__a0, __a1) }) }
func goToCall(g *ast.GoStmt) ast.Stmt {
	call := g.Call
	var pre []ast.Stmt
	fun := call.Fun
	if _, isLit := fun.(*ast.FuncLit); !isLit {
		id := ast.NewIdent("__vf")
		pre = append(pre, &ast.AssignStmt{Lhs: []ast.Expr{id}, Tok: token.DEFINE, Rhs: []ast.Expr{fun}})
		fun = id
	}
	var args []ast.Expr
	for i, a := range call.Args {
		if _, lit := a.(*ast.BasicLit); lit || isConst(a) {
			args = append(args, a)
			continue
		}
		if idn, ok := a.(*ast.Ident); ok && (idn.Name == "nil" || idn.Name == "true" || idn.Name == "false") {
			args = append(args, a)
			continue
		}
		id := ast.NewIdent(fmt.Sprintf("__va%d", i))
		pre = append(pre, &ast.AssignStmt{Lhs: []ast.Expr{id}, Tok: token.DEFINE, Rhs: []ast.Expr{a}})
		args = append(args, id)
	}
	inner := &ast.CallExpr{Fun: fun, Args: args, Ellipsis: call.Ellipsis}
	lit := &ast.FuncLit{Type: &ast.FuncType{Params: &ast.FieldList{}}, Body: &ast.BlockStmt{List: []ast.Stmt{&ast.ExprStmt{X: inner}}}}
	goCall := &ast.ExprStmt{X: &ast.CallExpr{Fun: &ast.SelectorExpr{X: ast.NewIdent("vsched"), Sel: ast.NewIdent("Go")}, Args: []ast.Expr{lit}}}
	return &ast.BlockStmt{List: append(pre, goCall)}
}

func addImport(f *ast.File, path string) {
	for _, imp := range f.Imports {
		if imp.Path.Value == strconv.Quote(path) {
			return
		}
	}
	spec := &ast.ImportSpec{Path: &ast.BasicLit{Kind: token.STRING, Value: strconv.Quote(path)}}
	for _, d := range f.Decls {
		if gd, ok := d.(*ast.GenDecl); ok && gd.Tok == token.IMPORT {
			gd.Specs = append(gd.Specs, spec)
			if !gd.Lparen.IsValid() {
				gd.Lparen = gd.Pos()
			}
			f.Imports = append(f.Imports, spec)
			return
		}
	}
	gd := &ast.GenDecl{Tok: token.IMPORT, Specs: []ast.Spec{spec}}
	f.Decls = append([]ast.Decl{gd}, f.Decls...)
	f.Imports = append(f.Imports, spec)
}
