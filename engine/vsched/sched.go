// Package vsched is the controlled scheduler of the verification framework: exactly one
// controlled thread runs at a time, every synchronisation operation of the instrumented code is a
// scheduling point, and Explore enumerates all schedules up to a deviation bound (stateless DFS).
package vsched

import (
	"fmt"
	"os"
	"runtime"
	"sort"
	"strings"
	"sync"
	"time"
)

func getg() uintptr

type OpKind uint8

const (
	OpStart  OpKind = iota
	OpLoad          // read-only access (atomic load, Map.Load/Range)
	OpAtomic        // read-modify-write / store
	OpLock
	OpUnlock
	OpMap
	OpUser
	OpWait
	OpSpawn
	OpIO
	OpTimer
)

type Thread struct {
	quiet   int // >0: scheduling points are suppressed (NoPoints)
	low     bool
	cname   string // canonical name: parent.cname + "." + spawn index
	nspawn  int
	idx     int    // number of events executed
	ci      int32  // interned canonical name
	vc      vclock // vector clock
	id      int
	name    string
	gate    chan bool // true => exit (release)
	g       uintptr
	done    bool
	op      OpKind
	obj     uintptr
	enabled func() bool // nil => always enabled
	ex      *Exec
	waiter  *chanWaiter
}

type step struct {
	chosen   uint16
	def      uint16
	nThreads uint16 // candidates [0,nThreads) are threads, the rest timers
	nCand    uint16
	prevEn   bool // candidate 0 is the previously running thread, still enabled
	noBranch bool
	name     string
}

type VTimer struct {
	Deadline int64 // virtual ns
	Armed    bool
	Fire     func() // called by the scheduler while all threads are parked
	seq      int
}

type objClock struct {
	w vclock // clock of last write
	r vclock // join of reads since last write
}

// vclock is a vector clock indexed by the interned canonical thread name, so that the same
// logical thread has the same index in every execution.
type vclock []int32

var (
	internIDs  = map[string]int32{}
	internHash []uint64
)

func internName(s string) int32 {
	if id, ok := internIDs[s]; ok {
		return id
	}
	id := int32(len(internHash))
	internIDs[s] = id
	internHash = append(internHash, hashStr(s))
	return id
}

func (v *vclock) set(i int32, x int32) {
	for int(i) >= len(*v) {
		*v = append(*v, 0)
	}
	(*v)[i] = x
}

func (v *vclock) join(o vclock) {
	for len(*v) < len(o) {
		*v = append(*v, 0)
	}
	d := *v
	for i, x := range o {
		if d[i] < x {
			d[i] = x
		}
	}
}

func (v vclock) clone() vclock { return append(vclock(nil), v...) }

// Failure is one violated oracle clause in one execution.
type Failure struct {
	Kind   string
	Detail string
}

type Exec struct {
	Now         int64
	Horizon     int64
	TimerBranch bool // armed timers within the horizon are scheduling alternatives
	timers      []*VTimer
	tseq        int
	threads     []*Thread
	parked      chan *Thread
	prefix      []int
	steps       []step
	current     *Thread
	released    bool
	failures    []Failure
	Steps       int
	TimerFires  int
	setup       bool
	nroot       int
	objVC       map[uintptr]*objClock
	fp          uint64
	Pruned      bool
	cache       *fpCache
	used        int
	Bound       int
	ModePreempt bool
	Deadlocked  []string
	trace       bool
	Trace       []string
	wg          sync.WaitGroup
	Data        map[string]any // scratch space for harnesses
	objOrd      map[uintptr]int
}

type fpCache struct{ seen map[uint64]int }

func hash64(parts ...uint64) uint64 {
	h := uint64(1469598103934665603)
	for _, p := range parts {
		for i := 0; i < 8; i++ {
			h ^= (p >> (8 * i)) & 0xff
			h *= 1099511628211
		}
	}
	return h
}

func hashStr(s string) uint64 {
	h := uint64(1469598103934665603)
	for i := 0; i < len(s); i++ {
		h ^= uint64(s[i])
		h *= 1099511628211
	}
	return h
}

// ordinal of an object within the execution (addresses differ between executions)
func (ex *Exec) ord(obj uintptr) int {
	if obj == 0 {
		return 0
	}
	if ex.objOrd == nil {
		ex.objOrd = map[uintptr]int{}
	}
	o, ok := ex.objOrd[obj]
	if !ok {
		o = len(ex.objOrd) + 1
		ex.objOrd[obj] = o
	}
	return o
}

// account records the event a thread is about to execute in the happens-before partial order.
func (ex *Exec) account(ci int32, vc *vclock, idx int, op OpKind, obj uintptr) {
	if ex.objVC == nil {
		ex.objVC = map[uintptr]*objClock{}
	}
	vc.set(ci, int32(idx))
	if obj != 0 {
		o := ex.objVC[obj]
		if o == nil {
			o = &objClock{}
			ex.objVC[obj] = o
		}
		if op == OpLoad {
			vc.join(o.w)
			o.r.join(*vc)
		} else {
			vc.join(o.w)
			vc.join(o.r)
			o.w = append(o.w[:0], *vc...)
			o.r = o.r[:0]
		}
	}
	var hv uint64
	for k, v := range *vc {
		if v != 0 {
			hv += hash64(internHash[k], uint64(v))
		}
	}
	ex.fp += hash64(internHash[ci], uint64(idx), hv, uint64(op))
}

var (
	regMu  sync.Mutex
	reg    = map[uintptr]*Thread{}
	active int32
)

func lookup() *Thread {
	if active == 0 {
		return nil
	}
	g := getg()
	regMu.Lock()
	t := reg[g]
	regMu.Unlock()
	return t
}

// Point is called by shims before a visible operation.
func Point(kind OpKind, obj uintptr) {
	t := lookup()
	if t == nil || t.ex.released || t.quiet > 0 {
		return
	}
	t.op, t.obj, t.enabled = kind, obj, nil
	t.park()
}

// Block parks until pred holds (evaluated by the scheduler while everything is parked).
func Block(kind OpKind, obj uintptr, pred func() bool) bool {
	t := lookup()
	if t == nil || t.ex.released {
		return false
	}
	t.op, t.obj, t.enabled = kind, obj, pred
	t.park()
	return true
}

// Controlled reports whether the calling goroutine is a controlled thread of a live execution.
func Controlled() bool {
	t := lookup()
	return t != nil && !t.ex.released
}

func (t *Thread) park() {
	t.ex.parked <- t
	if <-t.gate {
		runtime.Goexit()
	}
}

// Go starts fn as a controlled thread when the caller is controlled.
func Go(fn func()) {
	t := lookup()
	if t == nil || t.ex.released {
		go fn()
		return
	}
	t.ex.spawn("", fn)
}

func (ex *Exec) spawn(name string, fn func()) *Thread {
	nt := &Thread{id: len(ex.threads), name: name, gate: make(chan bool), ex: ex, op: OpStart}
	if parent := ex.current; parent != nil && lookup() == parent {
		parent.nspawn++
		nt.cname = fmt.Sprintf("%s.%d", parent.cname, parent.nspawn)
		nt.vc = parent.vc.clone()
	} else {
		ex.nroot++
		nt.cname = fmt.Sprintf("r%d", ex.nroot)
		if name != "" {
			nt.cname = name
		}
	}
	if name == "" {
		nt.name = nt.cname
	}
	nt.ci = internName(nt.cname)
	ex.threads = append(ex.threads, nt)
	ready := make(chan struct{})
	ex.wg.Add(1)
	go func() {
		nt.g = getg()
		regMu.Lock()
		reg[nt.g] = nt
		regMu.Unlock()
		close(ready)
		defer ex.wg.Done()
		if <-nt.gate { // first scheduling
			regMu.Lock()
			delete(reg, nt.g)
			regMu.Unlock()
			nt.done = true
			return
		}
		defer func() {
			if r := recover(); r != nil {
				buf := make([]byte, 1<<14)
				n := runtime.Stack(buf, false)
				if !ex.released {
					ex.Fail("goroutine-panic", "%v in %s\n%s", r, nt.name, trimStack(string(buf[:n])))
				}
			}
			regMu.Lock()
			delete(reg, nt.g)
			regMu.Unlock()
			nt.done = true
			if !ex.released {
				ex.parked <- nt
			}
		}()
		fn()
	}()
	<-ready
	return nt
}

func trimStack(s string) string {
	lines := strings.Split(s, "\n")
	var out []string
	for _, l := range lines {
		if strings.Contains(l, "ergo.services") || strings.Contains(l, "/repo/") {
			out = append(out, strings.TrimSpace(l))
		}
		if len(out) >= 12 {
			break
		}
	}
	return strings.Join(out, " | ")
}

func (ex *Exec) Thread(name string, fn func()) { ex.spawn(name, fn) }

// ThreadLow declares a thread that the default scheduler runs only when nothing else can run
// (fault injectors): one deviation places it at any earlier point.
func (ex *Exec) ThreadLow(name string, fn func()) { ex.spawn(name, fn).low = true }

var curExec *Exec

// Current returns the execution being explored (nil outside Explore).
func Current() *Exec { return curExec }

func (ex *Exec) AddTimer(t *VTimer) {
	ex.tseq++
	t.seq = ex.tseq
	ex.timers = append(ex.timers, t)
}

// SpawnFromTimer starts a controlled thread on behalf of a fired timer.
func (ex *Exec) SpawnFromTimer(fn func()) {
	save := ex.current
	ex.current = nil
	ex.spawn(fmt.Sprintf("timer%d", ex.TimerFires), fn)
	ex.current = save
}

func (ex *Exec) Fail(kind string, format string, a ...any) {
	ex.failures = append(ex.failures, Failure{Kind: kind, Detail: fmt.Sprintf(format, a...)})
}

func (ex *Exec) Failed() bool { return len(ex.failures) > 0 }

type cand struct {
	t  *Thread
	tm *VTimer
}

func (ex *Exec) armedTimers() []*VTimer {
	var ts []*VTimer
	limit := ex.Horizon
	if ex.setup {
		limit = ex.Now + 1e5 // set-up phases only run timers that are due now (write flushers)
	}
	for _, t := range ex.timers {
		if t.Armed && t.Deadline <= limit {
			ts = append(ts, t)
		}
	}
	sort.Slice(ts, func(i, j int) bool {
		if ts[i].Deadline != ts[j].Deadline {
			return ts[i].Deadline < ts[j].Deadline
		}
		return ts[i].seq < ts[j].seq
	})
	// forget timers that can never fire again to keep the list short
	if len(ex.timers) > 64 {
		var keep []*VTimer
		for _, t := range ex.timers {
			if t.Armed {
				keep = append(keep, t)
			}
		}
		ex.timers = keep
	}
	return ts
}

// candidates in default order: running thread, normal threads by id, timers due now, low
// threads, remaining timers by deadline. Threads come first in the returned slice; the default
// choice is computed separately (a due timer precedes low threads).
func (ex *Exec) candidates(prev int) (cs []cand, nThreads int, def int, prevEn bool) {
	isEn := func(t *Thread) bool { return !t.done && (t.enabled == nil || t.enabled()) }
	if prev >= 0 && isEn(ex.threads[prev]) {
		// the running thread goes on (also a low-priority fault thread, once it was started)
		cs = append(cs, cand{t: ex.threads[prev]})
		prevEn = true
	}
	for _, t := range ex.threads {
		if t.low || (prevEn && t.id == prev) || !isEn(t) {
			continue
		}
		cs = append(cs, cand{t: t})
	}
	nNormal := len(cs)
	for _, t := range ex.threads {
		if !t.low || (prevEn && t.id == prev) || !isEn(t) {
			continue
		}
		cs = append(cs, cand{t: t})
	}
	nThreads = len(cs)
	tms := ex.armedTimers()
	for _, tm := range tms {
		cs = append(cs, cand{tm: tm})
	}
	def = 0
	if nNormal == 0 {
		// a timer that is due "now" (write flushers) goes before fault threads
		if len(tms) > 0 && (tms[0].Deadline <= ex.Now+1e5 || nThreads == 0) {
			def = nThreads
		}
	}
	return
}

func (ex *Exec) fire(tm *VTimer) {
	if tm.Deadline > ex.Now {
		ex.Now = tm.Deadline
	}
	tm.Armed = false
	ex.TimerFires++
	var tvc vclock
	ex.account(internName(fmt.Sprintf("T%d", tm.seq)), &tvc, 1, OpTimer, 0)
	tm.Fire()
	chanEpoch++
}

// RunSetup runs to quiescence with the default schedule; its steps are not branch points.
func (ex *Exec) RunSetup() {
	ex.setup = true
	ex.Run()
	ex.setup = false
}

var watchdog = 180 * time.Second

// Run executes the declared threads under the schedule prefix, then default choices, until no
// thread is enabled and no timer within the horizon is armed.
func (ex *Exec) Run() {
	prev := -1
	wd := time.NewTimer(watchdog)
	defer wd.Stop()
	for {
		cs, nThreads, def, prevEn := ex.candidates(prev)
		if len(cs) == 0 {
			break
		}
		i := len(ex.steps)
		choice := def
		if i < len(ex.prefix) {
			choice = ex.prefix[i]
			if choice >= len(cs) {
				panic(fmt.Sprintf("REPLAY-DIVERGENCE at step %d: choice %d of %d candidates", i, choice, len(cs)))
			}
		}
		if choice != def {
			if ex.setup {
				panic("REPLAY-DIVERGENCE: set-up step with non-default choice")
			}
			if !ex.ModePreempt || (prevEn && def == 0) {
				ex.used++
			}
		}
		c := cs[choice]
		st := step{chosen: uint16(choice), def: uint16(def), nThreads: uint16(nThreads), nCand: uint16(len(cs)), prevEn: prevEn && def == 0, noBranch: ex.setup || ex.Pruned}
		if c.tm != nil {
			if ex.trace {
				ex.Trace = append(ex.Trace, fmt.Sprintf("timer#%d@+%dms", c.tm.seq, (c.tm.Deadline-ex.Now)/1e6))
			}
			ex.steps = append(ex.steps, st)
			ex.fire(c.tm)
			ex.Steps++
			continue
		}
		t := c.t
		if ex.trace {
			st.name = t.name
			ex.Trace = append(ex.Trace, fmt.Sprintf("%s:%s#%d", t.name, opNames[t.op], ex.ord(t.obj)))
		}
		ex.steps = append(ex.steps, st)
		ex.current = t
		t.idx++
		ex.account(t.ci, &t.vc, t.idx, t.op, t.obj)
		if ex.cache != nil && !ex.setup && i >= len(ex.prefix) && !ex.Pruned {
			key := ex.fp ^ hashStr(t.cname)*31 ^ uint64(ex.Now)*1000003
			budget := ex.Bound - ex.used
			if b, ok := ex.cache.seen[key]; ok && b >= budget {
				// an equivalent prefix was already expanded with at least this budget: finish
				// this execution with default choices, but do not branch below this point
				ex.Pruned = true
				ex.steps[len(ex.steps)-1].noBranch = true
			} else {
				ex.cache.seen[key] = budget
			}
		}
		t.gate <- false
		if !wd.Stop() {
			select {
			case <-wd.C:
			default:
			}
		}
		wd.Reset(watchdog)
		select {
		case <-ex.parked:
		case <-wd.C:
			buf := make([]byte, 1<<18)
			n := runtime.Stack(buf, true)
			fmt.Fprintln(os.Stderr, "WATCHDOG: thread "+t.name+" did not reach a point\n"+string(buf[:n]))
			os.Exit(3)
		}
		prev = t.id
		ex.Steps++
	}
	for _, t := range ex.threads {
		if !t.done && t.op == OpLock {
			ex.Deadlocked = append(ex.Deadlocked, t.name)
		}
	}
}

var opNames = map[OpKind]string{OpStart: "start", OpLoad: "load", OpAtomic: "atomic", OpLock: "lock", OpUnlock: "unlock", OpMap: "map", OpUser: "user", OpWait: "wait", OpSpawn: "spawn", OpIO: "io", OpTimer: "timer"}

// Release ends the execution: threads that are still parked exit (running their deferred calls
// in pass-through mode). It waits for them.
func (ex *Exec) Release() {
	if ex.released {
		return
	}
	ex.released = true
	for _, t := range ex.threads {
		if !t.done {
			select {
			case t.gate <- true:
			case <-time.After(30 * time.Second):
			}
		}
	}
	done := make(chan struct{})
	go func() { ex.wg.Wait(); close(done) }()
	select {
	case <-done:
	case <-time.After(60 * time.Second):
		Leaked++
	}
}

// Leaked counts executions whose threads did not all exit after Release.
var Leaked int

// NoPoints runs f on the calling thread without scheduling points: for bookkeeping of the shims themselves (e.g.
// formatting map keys for a canonical iteration order) that happens to call instrumented code.
func NoPoints(f func()) {
	t := lookup()
	if t == nil {
		f()
		return
	}
	t.quiet++
	defer func() { t.quiet-- }()
	f()
}

// Quiet runs f (tear-down code) with a time limit; a stuck tear-down is abandoned.
func Quiet(f func()) {
	done := make(chan struct{})
	go func() {
		defer func() { recover(); close(done) }()
		f()
	}()
	select {
	case <-done:
	case <-time.After(60 * time.Second):
		Leaked++
	}
}
