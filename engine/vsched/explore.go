package vsched

import (
	"fmt"
	"sort"
	"syscall"
	"time"
)

// Config selects the cost model and the bounds of one exploration.
type Config struct {
	Bound       int  // deviation bound
	Preempt     bool // true: preemption bounding (free switches cost nothing); false: delay bounding
	Cache       bool // happens-before fingerprint cache
	TimerBranch bool // timers within the horizon are scheduling alternatives
	HorizonS    int  // virtual seconds after the start within which timers fire (default 10)
	Shard       int
	NShards     int
	Deadline    time.Time // stop branching after this instant (Exhaustive=false)
	MaxExec     int       // stop branching after this many executions (0 = no cap)
	Replay      []int     // when non-nil: run exactly this schedule once, with tracing
	NoWarmup    bool
	Confirm     int // how often a failing schedule is re-executed (default 4 more times)
}

type FailureReport struct {
	Kind       string   `json:"kind"`
	Detail     string   `json:"detail"`
	Schedule   []int    `json:"schedule"`
	Deviations int      `json:"deviations"`
	Count      int      `json:"count"`
	Confirmed  int      `json:"confirmed"`
	Flaky      bool     `json:"flaky"`
	Trace      []string `json:"trace,omitempty"`
}

type Result struct {
	Executions int
	Pruned     int
	Steps      int
	Traces     int // distinct happens-before fingerprints of complete executions
	Deviated   int // executions with at least one deviation and a fingerprint not seen before
	Outcomes   map[string]int
	Failures   map[string]*FailureReport
	Exhaustive bool
	Bound      int
	Cap        string
	Samples    [][]string // a few schedules written out (thread names)
	MaxSteps   int
	Leaked     int
}

const epoch = int64(1704067230) * 1e9 // 2024-01-01 00:00:30 UTC

func newExec(cfg Config, prefix []int, cache *fpCache) *Exec {
	h := cfg.HorizonS
	if h == 0 {
		h = 10
	}
	return &Exec{parked: make(chan *Thread), prefix: prefix, Now: epoch, Horizon: epoch + int64(h)*1e9,
		cache: cache, Bound: cfg.Bound, ModePreempt: cfg.Preempt, TimerBranch: cfg.TimerBranch, Data: map[string]any{}}
}

func runOne(cfg Config, prefix []int, cache *fpCache, trace bool, body func(ex *Exec) string) (*Exec, string) {
	ex := newExec(cfg, prefix, cache)
	ex.trace = trace
	curExec = ex
	out := body(ex)
	if !ex.released {
		ex.Release()
	}
	curExec = nil
	return ex, out
}

func choicesOf(ex *Exec) []int {
	c := make([]int, len(ex.steps))
	for i, s := range ex.steps {
		c[i] = int(s.chosen)
	}
	return c
}

// trim drops the trailing default choices of a schedule (they are implied).
func trim(ex *Exec, c []int) []int {
	n := len(c)
	for n > 0 && c[n-1] == int(ex.steps[n-1].def) {
		n--
	}
	return append([]int{}, c[:n]...)
}

// Explore runs body for every schedule within the bound and returns what was covered.
func Explore(cfg Config, body func(ex *Exec) string) Result {
	res := Result{Failures: map[string]*FailureReport{}, Outcomes: map[string]int{}, Exhaustive: true, Bound: cfg.Bound}
	active = 1
	defer func() { active = 0 }()
	if cfg.Confirm == 0 {
		cfg.Confirm = 4
	}
	if !cfg.NoWarmup {
		// discarded warm-up: lazily built package-level caches are filled before the first
		// execution that counts, so that every execution starts from the same global state
		wc := cfg
		wc.Bound = 0
		runOne(wc, nil, nil, false, body)
	}
	if cfg.Replay != nil {
		ex, out := runOne(cfg, cfg.Replay, nil, true, body)
		res.Executions = 1
		res.Steps = ex.Steps
		res.Outcomes[out]++
		for _, f := range ex.failures {
			if _, ok := res.Failures[f.Kind]; !ok {
				res.Failures[f.Kind] = &FailureReport{Kind: f.Kind, Detail: f.Detail, Schedule: cfg.Replay, Count: 1, Confirmed: 1, Trace: ex.Trace}
			}
		}
		res.Samples = append(res.Samples, ex.Trace)
		return res
	}
	var cache *fpCache
	if cfg.Cache {
		cache = &fpCache{seen: map[uint64]int{}}
	}
	finals := map[uint64]bool{}
	topK := 0
	stopped := func() bool {
		if res.Cap != "" {
			return true
		}
		if cfg.MaxExec > 0 && res.Executions >= cfg.MaxExec {
			res.Cap = fmt.Sprintf("execution cap %d", cfg.MaxExec)
		} else if !cfg.Deadline.IsZero() && BudgetNow().After(cfg.Deadline) {
			res.Cap = "time budget"
		}
		if res.Cap != "" {
			res.Exhaustive = false
		}
		return res.Cap != ""
	}
	// work is split at the level of the second deviation (first, if the bound is 1): executions
	// with fewer deviations are run by every shard (they are needed to reach the subtrees) but
	// counted by shard 0 only
	shardLevel := 2
	if cfg.Bound < 2 {
		shardLevel = 1
	}
	var rec func(prefix []int)
	rec = func(prefix []int) {
		ex, out := runOne(cfg, prefix, cache, false, body)
		counted := cfg.NShards <= 1 || cfg.Shard == 0 || ex.used >= shardLevel
		if counted {
			res.Executions++
			if ex.Pruned {
				res.Pruned++
			}
			res.Steps += ex.Steps
			res.Outcomes[out]++
			if !finals[ex.fp] {
				finals[ex.fp] = true
				if ex.used > 0 {
					res.Deviated++
				}
			}
		}
		if ex.Steps > res.MaxSteps {
			res.MaxSteps = ex.Steps
		}
		choices := choicesOf(ex)
		for _, f := range ex.failures {
			fr := res.Failures[f.Kind]
			if fr == nil {
				fr = &FailureReport{Kind: f.Kind, Detail: f.Detail, Schedule: trim(ex, choices), Deviations: ex.used}
				res.Failures[f.Kind] = fr
			} else if ex.used < fr.Deviations {
				fr.Detail, fr.Schedule, fr.Deviations = f.Detail, trim(ex, choices), ex.used
			}
			fr.Count++
		}
		steps := ex.steps
		ex = nil
		pre := 0
		for i, s := range steps {
			if i >= len(prefix) && !s.noBranch {
				for alt := 0; alt < int(s.nCand); alt++ {
					if alt == int(s.def) {
						continue
					}
					if alt >= int(s.nThreads) && !cfg.TimerBranch {
						continue
					}
					cost := pre + 1
					if cfg.Preempt && !s.prevEn {
						cost = pre
					}
					if cost > cfg.Bound {
						continue
					}
					if cfg.NShards > 1 && cost == shardLevel && pre < shardLevel {
						topK++
						if topK%cfg.NShards != cfg.Shard {
							continue
						}
					}
					if stopped() {
						return
					}
					np := append(append(make([]int, 0, i+1), choices[:i]...), alt)
					rec(np)
				}
			}
			if choices[i] != int(s.def) && (!cfg.Preempt || s.prevEn) {
				pre++
			}
		}
	}
	rec(nil)
	res.Traces = len(finals)
	res.Leaked = Leaked
	// confirm every failure by replaying its schedule
	kinds := make([]string, 0, len(res.Failures))
	for k := range res.Failures {
		kinds = append(kinds, k)
	}
	sort.Strings(kinds)
	for _, k := range kinds {
		fr := res.Failures[k]
		fr.Confirmed = 1
		for r := 0; r < cfg.Confirm; r++ {
			ex, _ := runOne(cfg, fr.Schedule, nil, r == 0, body)
			ok := false
			for _, f := range ex.failures {
				if f.Kind == k {
					ok = true
				}
			}
			if r == 0 {
				fr.Trace = ex.Trace
			}
			if ok {
				fr.Confirmed++
			} else {
				fr.Flaky = true
			}
		}
	}
	return res
}

// Sample returns the trace (thread names and operations) of one schedule.
func Sample(cfg Config, schedule []int, body func(ex *Exec) string) []string {
	active = 1
	defer func() { active = 0 }()
	ex, _ := runOne(cfg, schedule, nil, true, body)
	return ex.Trace
}

// RunOnce executes body once under the scheduler with the default schedule (no exploration).
func RunOnce(horizonS int, body func(ex *Exec) string) (failures []Failure, out string) {
	active = 1
	defer func() { active = 0 }()
	ex, out := runOne(Config{HorizonS: horizonS}, nil, nil, false, body)
	return ex.failures, out
}

var procStart = time.Now()

// BudgetNow is the clock that time budgets are measured against: the start of the (single-threaded) worker process
// plus the CPU time it has consumed since, so that a loaded machine changes how long a check takes and not how much
// of its space it explores. It never falls behind the wall clock by more than a factor of three (a worker that
// sleeps or is starved still ends).
func BudgetNow() time.Time {
	var ru syscall.Rusage
	t := procStart
	if err := syscall.Getrusage(syscall.RUSAGE_SELF, &ru); err == nil {
		t = procStart.Add(time.Duration(ru.Utime.Nano() + ru.Stime.Nano()))
	} else {
		return time.Now()
	}
	if floor := procStart.Add(time.Since(procStart) / 3); floor.After(t) {
		t = floor
	}
	return t
}
