module verif.local/vsched

go 1.20
