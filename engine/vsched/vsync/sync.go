// Package sync (vsync) mirrors package sync; lock and wait operations are blocking scheduling
// points with an enabledness predicate, Map iteration is sorted, Pool is a deterministic LIFO.
package sync

import (
	"fmt"
	"sort"
	rs "sync"
	"unsafe"

	"verif.local/vsched"
)

type Locker = rs.Locker

type Mutex struct {
	mu   rs.Mutex
	held bool
}

func (m *Mutex) Lock() {
	vsched.Block(vsched.OpLock, uintptr(unsafe.Pointer(m)), func() bool { return !m.held })
	m.mu.Lock()
	m.held = true
}
func (m *Mutex) Unlock() {
	m.held = false
	m.mu.Unlock()
}
func (m *Mutex) TryLock() bool {
	vsched.Point(vsched.OpLock, uintptr(unsafe.Pointer(m)))
	if m.mu.TryLock() {
		m.held = true
		return true
	}
	return false
}

type RWMutex struct {
	mu      rs.RWMutex
	writer  bool
	readers int32
	bk      rs.Mutex
}

func (m *RWMutex) Lock() {
	vsched.Block(vsched.OpLock, uintptr(unsafe.Pointer(m)), func() bool {
		m.bk.Lock()
		defer m.bk.Unlock()
		return !m.writer && m.readers == 0
	})
	m.mu.Lock()
	m.bk.Lock()
	m.writer = true
	m.bk.Unlock()
}
func (m *RWMutex) Unlock() {
	m.bk.Lock()
	m.writer = false
	m.bk.Unlock()
	m.mu.Unlock()
}
func (m *RWMutex) RLock() {
	vsched.Block(vsched.OpLock, uintptr(unsafe.Pointer(m)), func() bool {
		m.bk.Lock()
		defer m.bk.Unlock()
		return !m.writer
	})
	m.mu.RLock()
	m.bk.Lock()
	m.readers++
	m.bk.Unlock()
}
func (m *RWMutex) RUnlock() {
	m.bk.Lock()
	m.readers--
	m.bk.Unlock()
	m.mu.RUnlock()
}
func (m *RWMutex) TryLock() bool {
	vsched.Point(vsched.OpLock, uintptr(unsafe.Pointer(m)))
	if m.mu.TryLock() {
		m.bk.Lock()
		m.writer = true
		m.bk.Unlock()
		return true
	}
	return false
}
func (m *RWMutex) TryRLock() bool {
	vsched.Point(vsched.OpLock, uintptr(unsafe.Pointer(m)))
	if m.mu.TryRLock() {
		m.bk.Lock()
		m.readers++
		m.bk.Unlock()
		return true
	}
	return false
}
func (m *RWMutex) RLocker() Locker { return (*rlocker)(m) }

type rlocker RWMutex

func (r *rlocker) Lock()   { (*RWMutex)(r).RLock() }
func (r *rlocker) Unlock() { (*RWMutex)(r).RUnlock() }

type WaitGroup struct {
	wg rs.WaitGroup
	mu rs.Mutex
	n  int
}

func (w *WaitGroup) Add(d int) {
	vsched.Point(vsched.OpAtomic, uintptr(unsafe.Pointer(w)))
	w.mu.Lock()
	w.n += d
	w.mu.Unlock()
	w.wg.Add(d)
}
func (w *WaitGroup) Done() { w.Add(-1) }
func (w *WaitGroup) Wait() {
	vsched.Block(vsched.OpWait, uintptr(unsafe.Pointer(w)), func() bool { w.mu.Lock(); defer w.mu.Unlock(); return w.n == 0 })
	w.wg.Wait()
}

type Once struct {
	m    Mutex
	done bool
}

func (o *Once) Do(f func()) {
	o.m.Lock()
	defer o.m.Unlock()
	if !o.done {
		o.done = true
		f()
	}
}

func OnceFunc(f func()) func() {
	var o Once
	return func() { o.Do(f) }
}

func OnceValue[T any](f func() T) func() T {
	var o Once
	var v T
	return func() T { o.Do(func() { v = f() }); return v }
}

func OnceValues[T1, T2 any](f func() (T1, T2)) func() (T1, T2) {
	var o Once
	var v1 T1
	var v2 T2
	return func() (T1, T2) { o.Do(func() { v1, v2 = f() }); return v1, v2 }
}

// Cond: Wait releases L, blocks until a later Signal/Broadcast, re-acquires L.
type Cond struct {
	L   Locker
	mu  rs.Mutex
	gen int
	rc  *rs.Cond
}

func NewCond(l Locker) *Cond { return &Cond{L: l} }

func (c *Cond) Wait() {
	if !vsched.Controlled() {
		c.mu.Lock()
		if c.rc == nil {
			c.rc = rs.NewCond(c.L)
		}
		rc := c.rc
		c.mu.Unlock()
		rc.Wait()
		return
	}
	c.mu.Lock()
	g := c.gen
	c.mu.Unlock()
	c.L.Unlock()
	vsched.Block(vsched.OpLock, uintptr(unsafe.Pointer(c)), func() bool { c.mu.Lock(); defer c.mu.Unlock(); return c.gen != g })
	c.L.Lock()
}
func (c *Cond) Signal() { c.Broadcast() }
func (c *Cond) Broadcast() {
	vsched.Point(vsched.OpAtomic, uintptr(unsafe.Pointer(c)))
	c.mu.Lock()
	c.gen++
	rc := c.rc
	c.mu.Unlock()
	if rc != nil {
		rc.Broadcast()
	}
}

// Pool is a deterministic LIFO that empties itself whenever the explored execution changes, so
// that use-after-release is a reproducible, schedule-dependent fact.
type Pool struct {
	New func() any
	mu  rs.Mutex
	st  []any
	ex  *vsched.Exec
}

func (p *Pool) sync() {
	if cur := vsched.Current(); cur != p.ex {
		p.ex = cur
		p.st = nil
	}
}

func (p *Pool) Get() any {
	vsched.Point(vsched.OpMap, uintptr(unsafe.Pointer(p)))
	p.mu.Lock()
	p.sync()
	if n := len(p.st); n > 0 {
		x := p.st[n-1]
		p.st = p.st[:n-1]
		p.mu.Unlock()
		return x
	}
	p.mu.Unlock()
	if p.New != nil {
		return p.New()
	}
	return nil
}
func (p *Pool) Put(x any) {
	vsched.Point(vsched.OpMap, uintptr(unsafe.Pointer(p)))
	p.mu.Lock()
	p.sync()
	if len(p.st) < 64 {
		p.st = append(p.st, x)
	}
	p.mu.Unlock()
	// a second point AFTER the object became available: whoever gives an object back and goes on using it
	// (reads of plain memory are not scheduling points) must be interruptible right here, or a use after
	// release could never be observed
	vsched.Point(vsched.OpMap, uintptr(unsafe.Pointer(p)))
}

type Map struct{ m rs.Map }

func (m *Map) rd() { vsched.Point(vsched.OpLoad, uintptr(unsafe.Pointer(m))) }
func (m *Map) wr() { vsched.Point(vsched.OpMap, uintptr(unsafe.Pointer(m))) }

func (m *Map) Load(k any) (any, bool)           { m.rd(); return m.m.Load(k) }
func (m *Map) Store(k, v any)                   { m.wr(); m.m.Store(k, v) }
func (m *Map) LoadOrStore(k, v any) (any, bool) { m.wr(); return m.m.LoadOrStore(k, v) }
func (m *Map) LoadAndDelete(k any) (any, bool)  { m.wr(); return m.m.LoadAndDelete(k) }
func (m *Map) Delete(k any)                     { m.wr(); m.m.Delete(k) }
func (m *Map) Swap(k, v any) (any, bool)        { m.wr(); return m.m.Swap(k, v) }
func (m *Map) CompareAndSwap(k, o, n any) bool  { m.wr(); return m.m.CompareAndSwap(k, o, n) }
func (m *Map) CompareAndDelete(k, o any) bool   { m.wr(); return m.m.CompareAndDelete(k, o) }
func (m *Map) Clear()                           { m.wr(); m.m.Range(func(k, _ any) bool { m.m.Delete(k); return true }) }
func (m *Map) Range(f func(k, v any) bool) {
	m.rd()
	type kv struct {
		k, v any
		s    string
	}
	var all []kv
	// the snapshot is taken in one go, and nothing of the code under test runs inside the real Range: a key's String
	// method may itself be instrumented (gen.PID formats its node name through a cached table), and a scheduling
	// point in the middle of Go's randomly ordered map iteration made executions irreproducible
	m.m.Range(func(k, v any) bool { all = append(all, kv{k: k, v: v}); return true })
	vsched.NoPoints(func() {
		for i := range all {
			all[i].s = fmt.Sprintf("%T:%v", all[i].k, all[i].k)
		}
	})
	sort.Slice(all, func(i, j int) bool { return all[i].s < all[j].s })
	for _, e := range all {
		if !f(e.k, e.v) {
			return
		}
	}
}
