// Package harn is the glue between harness files (injected into the packages of the code under
// test) and the driver: a registry of scenarios, a uniform result record, and the runner that a
// single Test function per package calls.
package harn

import (
	"encoding/json"
	"fmt"
	"os"
	"regexp"
	"runtime"
	"sort"
	"strconv"
	"strings"
	"time"

	"verif.local/vsched"
)

// Result is what one scenario reports; one JSON line per scenario in $VERIF_OUT.
type Result struct {
	Property    string                           `json:"property"`
	Scenario    string                           `json:"scenario"`
	Engine      string                           `json:"engine"` // sched | opseq | enum
	Tier        string                           `json:"tier"`
	Executions  int                              `json:"executions"`
	Steps       int                              `json:"steps"`
	States      int                              `json:"states"`
	Transitions int                              `json:"transitions"`
	Distinct    int                              `json:"distinct_nontrivial"`
	Outcomes    map[string]int                   `json:"outcomes"`
	Failures    map[string]*vsched.FailureReport `json:"failures"`
	Exhaustive  bool                             `json:"exhaustive"`
	Bound       int                              `json:"bound"`
	Model       string                           `json:"cost_model,omitempty"`
	Cap         string                           `json:"cap,omitempty"`
	Samples     []any                            `json:"samples,omitempty"`
	WallS       float64                          `json:"wall_s"`
	Shard       string                           `json:"shard,omitempty"`
	Notes       []string                         `json:"notes,omitempty"`
	Replay      bool                             `json:"replay,omitempty"`
}

// Ctx carries the run parameters to a scenario.
type Ctx struct {
	Tier     string
	Thorough bool
	Seed     int
	Shard    int
	NShards  int
	Deadline time.Time
	Replay   []int
	Params   map[string]string
}

type Scenario struct {
	Property    string
	Name        string
	Tiers       string // "" = both, "thorough" = thorough only, "quick" = quick only
	Shards      int    // thorough-tier subtree shards (0/1 = none)
	QuickShards int    // quick-tier subtree shards (0/1 = none)
	Run         func(c *Ctx) *Result
}

var registry []Scenario

func Register(s Scenario) { registry = append(registry, s) }

func envInt(k string, d int) int {
	if v, err := strconv.Atoi(os.Getenv(k)); err == nil {
		return v
	}
	return d
}

type tb interface {
	Logf(string, ...any)
	Fatalf(string, ...any)
}

// Main is called by the single Test function of each harness package.
// runGuarded runs a scenario; a panic that escapes it on the scenario's own goroutine is a finding when it was
// raised inside the code under test (the innermost non-runtime frame is not a harness or engine file), and a
// machinery failure otherwise (it is re-raised).
func runGuarded(s Scenario, c *Ctx) (r *Result) {
	defer func() {
		p := recover()
		if p == nil {
			return
		}
		pcs := make([]uintptr, 64)
		n := runtime.Callers(2, pcs)
		frames := runtime.CallersFrames(pcs[:n])
		var trace []string
		inCode := false
		decided := false
		for {
			f, more := frames.Next()
			if !strings.HasPrefix(f.Function, "runtime.") && !decided {
				decided = true
				inCode = !strings.Contains(f.File, "zz_verif_") && !strings.Contains(f.File, "/harness/") && !strings.Contains(f.File, "/engine/vsched")
			}
			if len(trace) < 12 {
				trace = append(trace, fmt.Sprintf("%s (%s:%d)", f.Function, f.File, f.Line))
			}
			if !more {
				break
			}
		}
		if !inCode {
			panic(p)
		}
		r = NewResult("enum")
		r.Exhaustive, r.Cap = false, "the scenario was ended by a panic in the code under test"
		r.Fail("panic-in-code-under-test", "%v | %s", p, strings.Join(trace, " | "))
	}()
	return s.Run(c)
}

func Main(t tb) {
	tier := os.Getenv("VERIF_TIER")
	if tier == "" {
		tier = "quick"
	}
	prop := os.Getenv("VERIF_PROP")
	if os.Getenv("VERIF_LIST") != "" {
		for _, s := range registry {
			if prop != "" && s.Property != prop {
				continue
			}
			if s.Tiers != "" && s.Tiers != tier {
				continue
			}
			sh := 1
			if tier == "thorough" && s.Shards > 1 {
				sh = s.Shards
			}
			if tier != "thorough" && s.QuickShards > 1 {
				sh = s.QuickShards
			}
			fmt.Printf("SCENARIO %s %s %d\n", s.Property, s.Name, sh)
		}
		return
	}
	var re *regexp.Regexp
	if p := os.Getenv("VERIF_SCENARIO"); p != "" {
		re = regexp.MustCompile("^(" + p + ")$")
	}
	out := os.Getenv("VERIF_OUT")
	for _, s := range registry {
		if prop != "" && s.Property != prop {
			continue
		}
		if re != nil && !re.MatchString(s.Name) {
			continue
		}
		if s.Tiers != "" && s.Tiers != tier && os.Getenv("VERIF_REPLAY") == "" {
			continue
		}
		c := &Ctx{Tier: tier, Thorough: tier == "thorough", Seed: envInt("VERIF_SEED", 0), Shard: envInt("VERIF_SHARD", 0), NShards: envInt("VERIF_NSHARDS", 1), Params: map[string]string{}}
		if b := envInt("VERIF_BUDGET_S", 0); b > 0 {
			c.Deadline = vsched.BudgetNow().Add(time.Duration(b) * time.Second)
		}
		if rp := os.Getenv("VERIF_REPLAY"); rp != "" {
			var r struct {
				Schedule []int `json:"schedule"`
			}
			b, err := os.ReadFile(rp)
			if err != nil {
				t.Fatalf("replay file: %v", err)
			}
			if err := json.Unmarshal(b, &r); err != nil {
				t.Fatalf("replay file: %v", err)
			}
			c.Replay = r.Schedule
			if c.Replay == nil {
				c.Replay = []int{}
			}
		}
		start := time.Now()
		r := runGuarded(s, c)
		if r == nil {
			continue
		}
		r.Property, r.Scenario, r.Tier = s.Property, s.Name, tier
		r.WallS = time.Since(start).Seconds()
		r.Replay = c.Replay != nil
		if c.NShards > 1 {
			r.Shard = fmt.Sprintf("%d/%d", c.Shard, c.NShards)
		}
		b, _ := json.Marshal(r)
		if out != "" {
			f, err := os.OpenFile(out, os.O_APPEND|os.O_CREATE|os.O_WRONLY, 0o644)
			if err != nil {
				t.Fatalf("open %s: %v", out, err)
			}
			f.Write(append(b, '\n'))
			f.Close()
		}
		keys := make([]string, 0, len(r.Outcomes))
		for k := range r.Outcomes {
			keys = append(keys, k)
		}
		sort.Strings(keys)
		t.Logf("%s/%s: engine=%s executions=%d steps=%d states=%d outcomes=%d failures=%d exhaustive=%v bound=%d wall=%.1fs %s",
			s.Property, s.Name, r.Engine, r.Executions, r.Steps, r.States, len(r.Outcomes), len(r.Failures), r.Exhaustive, r.Bound, r.WallS, r.Cap)
		if os.Getenv("VERIF_VERBOSE") != "" || r.Replay {
			for _, k := range keys {
				t.Logf("    outcome x%d: %s", r.Outcomes[k], k)
			}
		}
		for k, f := range r.Failures {
			t.Logf("    FAILURE %s (x%d, %d deviations, confirmed %d, flaky=%v): %s", k, f.Count, f.Deviations, f.Confirmed, f.Flaky, f.Detail)
			if r.Replay {
				t.Logf("      trace: %s", strings.Join(f.Trace, " "))
			}
		}
	}
}

// Sched describes a scheduler scenario: the bounds per tier and the body.
type Sched struct {
	QuickBound, ThoroughBound int
	Preempt                   bool
	Cache                     bool
	TimerBranch               bool
	HorizonS                  int
	MaxExec                   int
	Body                      func(ex *vsched.Exec) string
}

// Explore runs a scheduler scenario and converts what was covered into a Result.
func Explore(c *Ctx, s Sched) *Result {
	bound := s.QuickBound
	if c.Thorough {
		bound = s.ThoroughBound
	}
	cfg := vsched.Config{Bound: bound, Preempt: s.Preempt, Cache: s.Cache, TimerBranch: s.TimerBranch, HorizonS: s.HorizonS,
		Shard: c.Shard, NShards: c.NShards, Deadline: c.Deadline, MaxExec: s.MaxExec, Replay: c.Replay}
	res := vsched.Explore(cfg, s.Body)
	r := &Result{Engine: "sched", Executions: res.Executions, Steps: res.Steps, States: res.Traces, Transitions: res.Steps,
		Distinct: res.Deviated, Outcomes: res.Outcomes, Failures: res.Failures, Exhaustive: res.Exhaustive, Bound: bound, Cap: res.Cap}
	r.Model = "delay-bounding"
	if s.Preempt {
		r.Model = "preemption-bounding"
	}
	if s.Cache {
		r.Model += "+hb-cache"
	}
	if res.Leaked > 0 {
		r.Notes = append(r.Notes, fmt.Sprintf("%d executions left goroutines behind after release", res.Leaked))
	}
	if c.Replay == nil && res.Executions > 1 {
		// write out two schedules: the default one and the last explored one are of little
		// interest; show the first deviating schedules of the enumeration order
		r.Samples = append(r.Samples, map[string]any{"schedule": []int{}, "trace": head(vsched.Sample(cfg, []int{}, s.Body), 60)})
	} else if c.Replay != nil && len(res.Samples) > 0 {
		r.Samples = append(r.Samples, map[string]any{"schedule": c.Replay, "trace": res.Samples[0]})
	}
	return r
}

func head(s []string, n int) []string {
	if len(s) > n {
		return append(append([]string{}, s[:n]...), fmt.Sprintf("… %d more steps", len(s)-n))
	}
	return s
}

// Merge adds the counts of b into a (used by scenarios that run several sub-explorations).
func Merge(a, b *Result) *Result {
	if a == nil {
		return b
	}
	a.Executions += b.Executions
	a.Steps += b.Steps
	a.States += b.States
	a.Transitions += b.Transitions
	a.Distinct += b.Distinct
	for k, v := range b.Outcomes {
		a.Outcomes[k] += v
	}
	for k, v := range b.Failures {
		if _, ok := a.Failures[k]; !ok {
			a.Failures[k] = v
		} else {
			a.Failures[k].Count += v.Count
		}
	}
	a.Exhaustive = a.Exhaustive && b.Exhaustive
	if b.Cap != "" {
		a.Cap = b.Cap
	}
	if len(a.Samples) < 4 {
		a.Samples = append(a.Samples, b.Samples...)
	}
	a.Notes = append(a.Notes, b.Notes...)
	return a
}

// NewResult returns an empty result for the non-scheduler engines.
func NewResult(engine string) *Result {
	return &Result{Engine: engine, Outcomes: map[string]int{}, Failures: map[string]*vsched.FailureReport{}, Exhaustive: true}
}

// Fail records a failure of a sequential engine (opseq/enum); the first detail per kind is kept.
func (r *Result) Fail(kind, format string, a ...any) {
	f := r.Failures[kind]
	if f == nil {
		f = &vsched.FailureReport{Kind: kind, Detail: fmt.Sprintf(format, a...), Confirmed: 1}
		r.Failures[kind] = f
	}
	f.Count++
}

// OpSeqSpec describes an explicit-state search over operation histories (Engine B): a state is
// the history that reaches it; Run replays a history on a fresh real object and returns the
// canonical form of the state reached.
type OpSeqSpec struct {
	Alphabet      []string
	DepthQuick    int
	DepthThorough int
	// histories up to this length are always extended, whether or not their canonical state
	// was seen before (a wrong implementation may give equal-looking states different futures)
	NoDedupQuick    int
	NoDedupThorough int
	// Run executes hist (indices into Alphabet) on a fresh system. It returns the canonical key
	// of the state reached ("" = the last operation is not applicable here: do not count, do
	// not extend) and reports violated oracle clauses through fail.
	Run func(hist []int, fail func(kind, format string, a ...any)) string
}

func (s OpSeqSpec) names(h []int) []string {
	out := make([]string, len(h))
	for i, x := range h {
		out[i] = s.Alphabet[x]
	}
	return out
}

// OpSeq runs the breadth-first search and reports states, transitions and the depth completed.
func OpSeq(c *Ctx, s OpSeqSpec) *Result {
	r := NewResult("opseq")
	depth := s.DepthQuick
	if c.Thorough {
		depth = s.DepthThorough
	}
	r.Bound = depth
	r.Model = "bfs-over-histories"
	nodedup := s.NoDedupQuick
	if c.Thorough {
		nodedup = s.NoDedupThorough
	}
	if c.Replay != nil {
		hist := c.Replay
		var fails []string
		key := s.Run(hist, func(kind, format string, a ...any) {
			r.Fail(kind, "history %v: %s", s.names(hist), fmt.Sprintf(format, a...))
			r.Failures[kind].Schedule = hist
			fails = append(fails, kind)
		})
		r.Executions, r.States, r.Transitions = 1, 1, len(hist)
		r.Outcomes[key]++
		r.Samples = append(r.Samples, map[string]any{"history": s.names(hist), "state": key})
		return r
	}
	seen := map[string]bool{}
	init := s.Run(nil, func(kind, format string, a ...any) { r.Fail(kind, "initial state: "+format, a...) })
	seen[init] = true
	r.Executions = 1
	frontier := [][]int{{}}
	completed := 0
	for d := 1; d <= depth; d++ {
		var next [][]int
		for _, h := range frontier {
			for op := range s.Alphabet {
				if c.Expired() {
					r.Exhaustive = false
					r.Cap = fmt.Sprintf("time budget (depth %d completed)", completed)
					goto done
				}
				hist := append(append(make([]int, 0, len(h)+1), h...), op)
				failed := false
				key := s.Run(hist, func(kind, format string, a ...any) {
					failed = true
					f := r.Failures[kind]
					if f == nil {
						r.Fail(kind, "history %v: %s", s.names(hist), fmt.Sprintf(format, a...))
						r.Failures[kind].Schedule = hist
						r.Failures[kind].Deviations = len(hist)
						r.Failures[kind].Trace = s.names(hist)
					} else {
						f.Count++
					}
				})
				r.Executions++
				if key == "" {
					continue
				}
				r.Transitions++
				r.Steps += len(hist)
				if failed {
					continue // do not extend beyond a violating state
				}
				if !seen[key] || d <= nodedup {
					seen[key] = true
					next = append(next, hist)
					if len(r.Samples) < 3 && d == depth {
						r.Samples = append(r.Samples, map[string]any{"history": s.names(hist), "state": key})
					}
				}
			}
		}
		completed = d
		frontier = next
	}
done:
	r.States = len(seen)
	r.Distinct = len(seen) - 1
	r.Bound = completed
	r.Outcomes = map[string]int{}
	for k := range seen {
		if len(r.Outcomes) < 2000 {
			r.Outcomes[k] = 1
		}
	}
	// a failing history is deterministic by construction; confirm by re-running it
	for kind, f := range r.Failures {
		f.Confirmed = 1
		again := false
		s.Run(f.Schedule, func(k, format string, a ...any) {
			if k == kind {
				again = true
			}
		})
		if again {
			f.Confirmed = 2
		} else {
			f.Flaky = true
		}
	}
	return r
}

// Expired reports whether the scenario's time budget is used up (measured in CPU time of this worker, see vsched.BudgetNow)
func (c *Ctx) Expired() bool {
	return !c.Deadline.IsZero() && vsched.BudgetNow().After(c.Deadline)
}
