// Package vconn: in-memory net.Conn whose reads and writes are scheduling points.
package vconn

import (
	"io"
	"net"
	rs "sync"
	"time"
	"unsafe"

	"verif.local/vsched"
)

type pipe struct {
	mu     rs.Mutex
	buf    []byte
	closed bool
}

type Conn struct {
	name string
	rd   *pipe
	wr   *pipe
	// MaxRead limits bytes returned by one Read (0 = unlimited); harness-controlled segmentation.
	MaxRead int
	// Hold delays delivery: reads block while it is set (per-link delay chosen by the harness).
	Hold bool
	// ReadPlan: the i-th Read of this end returns at most ReadPlan[i] bytes (0 = no limit);
	// consumed from the front. Harness-controlled TCP segmentation.
	ReadPlan []int
	// Reads counts the Read calls that returned data
	Reads int
}

// Pending returns the number of bytes written by the peer and not yet read.
func (c *Conn) Pending() int {
	c.rd.mu.Lock()
	defer c.rd.mu.Unlock()
	return len(c.rd.buf)
}

// Drain removes and returns the bytes written by the peer and not yet read.
func (c *Conn) Drain() []byte {
	c.rd.mu.Lock()
	defer c.rd.mu.Unlock()
	b := c.rd.buf
	c.rd.buf = nil
	return b
}

// Closed reports whether either side closed the link.
func (c *Conn) Closed() bool {
	c.rd.mu.Lock()
	defer c.rd.mu.Unlock()
	return c.rd.closed
}

type addr string

func (a addr) Network() string { return "vconn" }
func (a addr) String() string  { return string(a) }

func Pair(a, b string) (*Conn, *Conn) {
	p1, p2 := &pipe{}, &pipe{}
	return &Conn{name: a, rd: p1, wr: p2}, &Conn{name: b, rd: p2, wr: p1}
}

func (c *Conn) Read(p []byte) (int, error) {
	vsched.Block(vsched.OpIO, uintptr(unsafe.Pointer(c.rd)), func() bool {
		c.rd.mu.Lock()
		defer c.rd.mu.Unlock()
		return !c.Hold && (len(c.rd.buf) > 0 || c.rd.closed)
	})
	for {
		c.rd.mu.Lock()
		if len(c.rd.buf) > 0 {
			n := len(c.rd.buf)
			if n > len(p) {
				n = len(p)
			}
			if c.MaxRead > 0 && n > c.MaxRead {
				n = c.MaxRead
			}
			if len(c.ReadPlan) > 0 {
				if lim := c.ReadPlan[0]; lim > 0 && n > lim {
					n = lim
				}
				c.ReadPlan = c.ReadPlan[1:]
			}
			c.Reads++
			copy(p, c.rd.buf[:n])
			c.rd.buf = c.rd.buf[n:]
			c.rd.mu.Unlock()
			return n, nil
		}
		if c.rd.closed {
			c.rd.mu.Unlock()
			return 0, io.EOF
		}
		c.rd.mu.Unlock()
		time.Sleep(50 * time.Microsecond) // only reached by uncontrolled callers
	}
}

func (c *Conn) Write(p []byte) (int, error) {
	vsched.Point(vsched.OpIO, uintptr(unsafe.Pointer(c.wr)))
	c.wr.mu.Lock()
	defer c.wr.mu.Unlock()
	if c.wr.closed {
		return 0, io.ErrClosedPipe
	}
	c.wr.buf = append(c.wr.buf, p...)
	return len(p), nil
}

func (c *Conn) Close() error {
	vsched.Point(vsched.OpIO, uintptr(unsafe.Pointer(c.wr)))
	c.wr.mu.Lock()
	c.wr.closed = true
	c.wr.mu.Unlock()
	c.rd.mu.Lock()
	c.rd.closed = true
	c.rd.mu.Unlock()
	return nil
}

func (c *Conn) LocalAddr() net.Addr                { return addr(c.name) }
func (c *Conn) RemoteAddr() net.Addr               { return addr(c.name + "-peer") }
func (c *Conn) SetDeadline(t time.Time) error      { return nil }
func (c *Conn) SetReadDeadline(t time.Time) error  { return nil }
func (c *Conn) SetWriteDeadline(t time.Time) error { return nil }
