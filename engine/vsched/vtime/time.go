// Package time (vtime): facade over package time with a virtual clock during explorations.
package time

import (
	rt "time"

	"verif.local/vsched"
)

type (
	Time       = rt.Time
	Duration   = rt.Duration
	Location   = rt.Location
	Month      = rt.Month
	Weekday    = rt.Weekday
	ParseError = rt.ParseError
)

const (
	Nanosecond  = rt.Nanosecond
	Microsecond = rt.Microsecond
	Millisecond = rt.Millisecond
	Second      = rt.Second
	Minute      = rt.Minute
	Hour        = rt.Hour

	Layout      = rt.Layout
	ANSIC       = rt.ANSIC
	UnixDate    = rt.UnixDate
	RubyDate    = rt.RubyDate
	RFC822      = rt.RFC822
	RFC822Z     = rt.RFC822Z
	RFC850      = rt.RFC850
	RFC1123     = rt.RFC1123
	RFC1123Z    = rt.RFC1123Z
	RFC3339     = rt.RFC3339
	RFC3339Nano = rt.RFC3339Nano
	Kitchen     = rt.Kitchen
	Stamp       = rt.Stamp
	StampMilli  = rt.StampMilli
	StampMicro  = rt.StampMicro
	StampNano   = rt.StampNano
	DateTime    = rt.DateTime
	DateOnly    = rt.DateOnly
	TimeOnly    = rt.TimeOnly

	January   = rt.January
	February  = rt.February
	March     = rt.March
	April     = rt.April
	May       = rt.May
	June      = rt.June
	July      = rt.July
	August    = rt.August
	September = rt.September
	October   = rt.October
	November  = rt.November
	December  = rt.December

	Sunday    = rt.Sunday
	Monday    = rt.Monday
	Tuesday   = rt.Tuesday
	Wednesday = rt.Wednesday
	Thursday  = rt.Thursday
	Friday    = rt.Friday
	Saturday  = rt.Saturday
)

var (
	UTC   = rt.UTC
	Local = rt.Local
)

func Date(y int, m Month, d, h, mi, s, ns int, loc *Location) Time {
	return rt.Date(y, m, d, h, mi, s, ns, loc)
}
func Parse(l, v string) (Time, error)                          { return rt.Parse(l, v) }
func ParseInLocation(l, v string, loc *Location) (Time, error) { return rt.ParseInLocation(l, v, loc) }
func ParseDuration(s string) (Duration, error)                 { return rt.ParseDuration(s) }
func Unix(s, ns int64) Time                                    { return rt.Unix(s, ns) }
func UnixMilli(ms int64) Time                                  { return rt.UnixMilli(ms) }
func UnixMicro(us int64) Time                                  { return rt.UnixMicro(us) }
func LoadLocation(n string) (*Location, error)                 { return rt.LoadLocation(n) }
func FixedZone(n string, off int) *Location                    { return rt.FixedZone(n, off) }
func Since(t Time) Duration                                    { return Now().Sub(t) }
func Until(t Time) Duration                                    { return t.Sub(Now()) }

func Now() Time {
	if ex := vsched.Current(); ex != nil {
		return rt.Unix(0, ex.Now)
	}
	return rt.Now()
}

type Timer struct {
	C  <-chan Time
	c  chan Time
	f  func()
	vt *vsched.VTimer
	rt *rt.Timer
	ex *vsched.Exec
}

func newTimer(d Duration, f func()) *Timer {
	ex := vsched.Current()
	t := &Timer{f: f, ex: ex}
	if f == nil {
		t.c = make(chan Time, 1)
		t.C = t.c
	}
	if ex == nil {
		if f != nil {
			t.rt = rt.AfterFunc(d, f)
		} else {
			t.rt = rt.NewTimer(d)
			t.C = t.rt.C
		}
		return t
	}
	if d < 0 {
		d = 0
	}
	t.vt = &vsched.VTimer{Deadline: ex.Now + int64(d), Armed: true}
	t.vt.Fire = func() {
		if t.f != nil {
			ex.SpawnFromTimer(t.f)
			return
		}
		select {
		case t.c <- rt.Unix(0, ex.Now):
		default:
		}
	}
	vsched.Point(vsched.OpTimer, 0)
	ex.AddTimer(t.vt)
	return t
}

func NewTimer(d Duration) *Timer            { return newTimer(d, nil) }
func AfterFunc(d Duration, f func()) *Timer { return newTimer(d, f) }
func After(d Duration) <-chan Time          { return newTimer(d, nil).C }
func Tick(d Duration) <-chan Time           { return rt.Tick(d) }

// Ticker: not used by the code under test today; present (on the real clock) so that a tree that starts using it
// still builds
type Ticker = rt.Ticker

func NewTicker(d Duration) *Ticker { return rt.NewTicker(d) }

func (t *Timer) Stop() bool {
	if t.vt == nil {
		return t.rt.Stop()
	}
	vsched.Point(vsched.OpTimer, 0)
	was := t.vt.Armed
	t.vt.Armed = false
	return was
}

func (t *Timer) Reset(d Duration) bool {
	if t.vt == nil {
		return t.rt.Reset(d)
	}
	vsched.Point(vsched.OpTimer, 0)
	was := t.vt.Armed
	if cur := vsched.Current(); cur != nil {
		t.vt.Deadline = cur.Now + int64(d)
		t.vt.Armed = true
	}
	return was
}

func Sleep(d Duration) {
	ex := vsched.Current()
	if ex == nil || !vsched.Controlled() {
		rt.Sleep(d)
		return
	}
	fired := false
	vt := &vsched.VTimer{Deadline: ex.Now + int64(d), Armed: true}
	vt.Fire = func() { fired = true }
	ex.AddTimer(vt)
	vsched.Block(vsched.OpTimer, 0, func() bool { return fired })
}
