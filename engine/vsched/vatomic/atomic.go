// Package atomic (vatomic) mirrors sync/atomic; every operation is a scheduling point.
package atomic

import (
	ra "sync/atomic"
	"unsafe"

	"verif.local/vsched"
)

func rd(p unsafe.Pointer) { vsched.Point(vsched.OpLoad, uintptr(p)) }
func wr(p unsafe.Pointer) { vsched.Point(vsched.OpAtomic, uintptr(p)) }

// post: a second point AFTER an atomic store took effect. A store publishes something; what the storing thread does
// next with plain memory (clearing a field, reading a released object) must be interruptible right behind it, or a
// "publish, then finish the job" window could never be entered by another thread.
func post(p unsafe.Pointer) { vsched.Point(vsched.OpAtomic, uintptr(p)) }

func LoadInt32(p *int32) int32 { rd(unsafe.Pointer(p)); return ra.LoadInt32(p) }
func StoreInt32(p *int32, v int32) {
	wr(unsafe.Pointer(p))
	ra.StoreInt32(p, v)
	post(unsafe.Pointer(p))
}
func AddInt32(p *int32, d int32) int32  { wr(unsafe.Pointer(p)); return ra.AddInt32(p, d) }
func SwapInt32(p *int32, v int32) int32 { wr(unsafe.Pointer(p)); return ra.SwapInt32(p, v) }
func CompareAndSwapInt32(p *int32, o, n int32) bool {
	wr(unsafe.Pointer(p))
	return ra.CompareAndSwapInt32(p, o, n)
}

type Int32 struct{ v ra.Int32 }

func (x *Int32) Load() int32        { rd(unsafe.Pointer(x)); return x.v.Load() }
func (x *Int32) Store(v int32)      { wr(unsafe.Pointer(x)); x.v.Store(v); post(unsafe.Pointer(x)) }
func (x *Int32) Add(d int32) int32  { wr(unsafe.Pointer(x)); return x.v.Add(d) }
func (x *Int32) Swap(v int32) int32 { wr(unsafe.Pointer(x)); return x.v.Swap(v) }
func (x *Int32) CompareAndSwap(o, n int32) bool {
	wr(unsafe.Pointer(x))
	return x.v.CompareAndSwap(o, n)
}

func LoadInt64(p *int64) int64 { rd(unsafe.Pointer(p)); return ra.LoadInt64(p) }
func StoreInt64(p *int64, v int64) {
	wr(unsafe.Pointer(p))
	ra.StoreInt64(p, v)
	post(unsafe.Pointer(p))
}
func AddInt64(p *int64, d int64) int64  { wr(unsafe.Pointer(p)); return ra.AddInt64(p, d) }
func SwapInt64(p *int64, v int64) int64 { wr(unsafe.Pointer(p)); return ra.SwapInt64(p, v) }
func CompareAndSwapInt64(p *int64, o, n int64) bool {
	wr(unsafe.Pointer(p))
	return ra.CompareAndSwapInt64(p, o, n)
}

type Int64 struct{ v ra.Int64 }

func (x *Int64) Load() int64        { rd(unsafe.Pointer(x)); return x.v.Load() }
func (x *Int64) Store(v int64)      { wr(unsafe.Pointer(x)); x.v.Store(v); post(unsafe.Pointer(x)) }
func (x *Int64) Add(d int64) int64  { wr(unsafe.Pointer(x)); return x.v.Add(d) }
func (x *Int64) Swap(v int64) int64 { wr(unsafe.Pointer(x)); return x.v.Swap(v) }
func (x *Int64) CompareAndSwap(o, n int64) bool {
	wr(unsafe.Pointer(x))
	return x.v.CompareAndSwap(o, n)
}

func LoadUint32(p *uint32) uint32 { rd(unsafe.Pointer(p)); return ra.LoadUint32(p) }
func StoreUint32(p *uint32, v uint32) {
	wr(unsafe.Pointer(p))
	ra.StoreUint32(p, v)
	post(unsafe.Pointer(p))
}
func AddUint32(p *uint32, d uint32) uint32  { wr(unsafe.Pointer(p)); return ra.AddUint32(p, d) }
func SwapUint32(p *uint32, v uint32) uint32 { wr(unsafe.Pointer(p)); return ra.SwapUint32(p, v) }
func CompareAndSwapUint32(p *uint32, o, n uint32) bool {
	wr(unsafe.Pointer(p))
	return ra.CompareAndSwapUint32(p, o, n)
}

type Uint32 struct{ v ra.Uint32 }

func (x *Uint32) Load() uint32         { rd(unsafe.Pointer(x)); return x.v.Load() }
func (x *Uint32) Store(v uint32)       { wr(unsafe.Pointer(x)); x.v.Store(v); post(unsafe.Pointer(x)) }
func (x *Uint32) Add(d uint32) uint32  { wr(unsafe.Pointer(x)); return x.v.Add(d) }
func (x *Uint32) Swap(v uint32) uint32 { wr(unsafe.Pointer(x)); return x.v.Swap(v) }
func (x *Uint32) CompareAndSwap(o, n uint32) bool {
	wr(unsafe.Pointer(x))
	return x.v.CompareAndSwap(o, n)
}

func LoadUint64(p *uint64) uint64 { rd(unsafe.Pointer(p)); return ra.LoadUint64(p) }
func StoreUint64(p *uint64, v uint64) {
	wr(unsafe.Pointer(p))
	ra.StoreUint64(p, v)
	post(unsafe.Pointer(p))
}
func AddUint64(p *uint64, d uint64) uint64  { wr(unsafe.Pointer(p)); return ra.AddUint64(p, d) }
func SwapUint64(p *uint64, v uint64) uint64 { wr(unsafe.Pointer(p)); return ra.SwapUint64(p, v) }
func CompareAndSwapUint64(p *uint64, o, n uint64) bool {
	wr(unsafe.Pointer(p))
	return ra.CompareAndSwapUint64(p, o, n)
}

type Uint64 struct{ v ra.Uint64 }

func (x *Uint64) Load() uint64         { rd(unsafe.Pointer(x)); return x.v.Load() }
func (x *Uint64) Store(v uint64)       { wr(unsafe.Pointer(x)); x.v.Store(v); post(unsafe.Pointer(x)) }
func (x *Uint64) Add(d uint64) uint64  { wr(unsafe.Pointer(x)); return x.v.Add(d) }
func (x *Uint64) Swap(v uint64) uint64 { wr(unsafe.Pointer(x)); return x.v.Swap(v) }
func (x *Uint64) CompareAndSwap(o, n uint64) bool {
	wr(unsafe.Pointer(x))
	return x.v.CompareAndSwap(o, n)
}

func LoadUintptr(p *uintptr) uintptr { rd(unsafe.Pointer(p)); return ra.LoadUintptr(p) }
func StoreUintptr(p *uintptr, v uintptr) {
	wr(unsafe.Pointer(p))
	ra.StoreUintptr(p, v)
	post(unsafe.Pointer(p))
}
func AddUintptr(p *uintptr, d uintptr) uintptr  { wr(unsafe.Pointer(p)); return ra.AddUintptr(p, d) }
func SwapUintptr(p *uintptr, v uintptr) uintptr { wr(unsafe.Pointer(p)); return ra.SwapUintptr(p, v) }
func CompareAndSwapUintptr(p *uintptr, o, n uintptr) bool {
	wr(unsafe.Pointer(p))
	return ra.CompareAndSwapUintptr(p, o, n)
}

type Uintptr struct{ v ra.Uintptr }

func (x *Uintptr) Load() uintptr          { rd(unsafe.Pointer(x)); return x.v.Load() }
func (x *Uintptr) Store(v uintptr)        { wr(unsafe.Pointer(x)); x.v.Store(v); post(unsafe.Pointer(x)) }
func (x *Uintptr) Add(d uintptr) uintptr  { wr(unsafe.Pointer(x)); return x.v.Add(d) }
func (x *Uintptr) Swap(v uintptr) uintptr { wr(unsafe.Pointer(x)); return x.v.Swap(v) }
func (x *Uintptr) CompareAndSwap(o, n uintptr) bool {
	wr(unsafe.Pointer(x))
	return x.v.CompareAndSwap(o, n)
}

func LoadPointer(p *unsafe.Pointer) unsafe.Pointer { rd(unsafe.Pointer(p)); return ra.LoadPointer(p) }
func StorePointer(p *unsafe.Pointer, v unsafe.Pointer) {
	wr(unsafe.Pointer(p))
	ra.StorePointer(p, v)
	post(unsafe.Pointer(p))
}
func SwapPointer(p *unsafe.Pointer, v unsafe.Pointer) unsafe.Pointer {
	wr(unsafe.Pointer(p))
	return ra.SwapPointer(p, v)
}
func CompareAndSwapPointer(p *unsafe.Pointer, o, n unsafe.Pointer) bool {
	wr(unsafe.Pointer(p))
	return ra.CompareAndSwapPointer(p, o, n)
}

type Bool struct{ v ra.Bool }

func (b *Bool) Load() bool   { rd(unsafe.Pointer(b)); return b.v.Load() }
func (b *Bool) Store(x bool) { wr(unsafe.Pointer(b)); b.v.Store(x); post(unsafe.Pointer(b)) }
func (b *Bool) CompareAndSwap(o, n bool) bool {
	wr(unsafe.Pointer(b))
	return b.v.CompareAndSwap(o, n)
}
func (b *Bool) Swap(n bool) bool { wr(unsafe.Pointer(b)); return b.v.Swap(n) }

type Pointer[T any] struct{ v ra.Pointer[T] }

func (x *Pointer[T]) Load() *T   { rd(unsafe.Pointer(x)); return x.v.Load() }
func (x *Pointer[T]) Store(v *T) { wr(unsafe.Pointer(x)); x.v.Store(v); post(unsafe.Pointer(x)) }
func (x *Pointer[T]) Swap(v *T) *T {
	wr(unsafe.Pointer(x))
	return x.v.Swap(v)
}
func (x *Pointer[T]) CompareAndSwap(o, n *T) bool {
	wr(unsafe.Pointer(x))
	return x.v.CompareAndSwap(o, n)
}

type Value struct{ v ra.Value }

func (x *Value) Load() any   { rd(unsafe.Pointer(x)); return x.v.Load() }
func (x *Value) Store(v any) { wr(unsafe.Pointer(x)); x.v.Store(v); post(unsafe.Pointer(x)) }
func (x *Value) Swap(v any) any {
	wr(unsafe.Pointer(x))
	return x.v.Swap(v)
}
func (x *Value) CompareAndSwap(o, n any) bool {
	wr(unsafe.Pointer(x))
	return x.v.CompareAndSwap(o, n)
}
