package vsched

import (
	"fmt"
	"reflect"
	"sort"
	"sync/atomic"
	"time"
	"unsafe"
)

// ---- channel support for rewritten selects ----

var chanEpoch int64

// SelectOrder returns the order in which the cases of a rewritten select are polled.
func SelectOrder(n int) []int {
	r := make([]int, n)
	for i := range r {
		r[i] = i
	}
	return r
}

// ElemZero returns the zero value of the channel's element type.
func ElemZero[C interface{ ~chan T | ~<-chan T }, T any](ch C) (z T) { return }

// ChanEvent records that a channel operation succeeded (wakes pollers).
func ChanEvent() { chanEpoch++ }

// Close closes a channel and wakes pollers.
func Close[T any](ch chan T) {
	Point(OpAtomic, chanPtr(ch))
	close(ch)
	chanEpoch++
}

type chanWaiter struct {
	chans  []uintptr
	filled bool
	ch     uintptr
	val    any
}

func chanPtr(ch any) uintptr { return reflect.ValueOf(ch).Pointer() }

// TryRecv is a non-blocking receive that also accepts a value handed over by TrySend.
func TryRecv[C interface{ ~chan T | ~<-chan T }, T any](ch C) (v T, ok bool, got bool) {
	if t := lookup(); t != nil && !t.ex.released {
		if w := t.waiter; w != nil && w.filled && w.ch == chanPtr(ch) {
			t.waiter = nil
			if w.val == nil {
				return v, true, true
			}
			return w.val.(T), true, true
		}
	}
	select {
	case v, ok = <-ch:
		return v, ok, true
	default:
		return v, false, false
	}
}

// TrySend is a non-blocking send; if the channel cannot take the value but a controlled thread is
// parked in a rewritten select that receives from it, the value is handed over (rendezvous).
func TrySend[C interface{ ~chan T | ~chan<- T }, T any](ch C, v T) bool {
	select {
	case ch <- v:
		return true
	default:
	}
	if t := lookup(); t != nil && !t.ex.released {
		id := chanPtr(ch)
		for _, th := range t.ex.threads { // deterministic order
			w := th.waiter
			if w == nil || w.filled || th.done {
				continue
			}
			for _, c := range w.chans {
				if c == id {
					w.filled, w.ch, w.val = true, id, v
					chanEpoch++
					return true
				}
			}
		}
	}
	return false
}

// ChanWait parks the caller until some channel/timer activity happened.
func ChanWait(chs ...any) {
	t := lookup()
	if t == nil || t.ex.released {
		time.Sleep(50 * time.Microsecond)
		return
	}
	w := &chanWaiter{}
	for _, c := range chs {
		w.chans = append(w.chans, chanPtr(c))
	}
	t.waiter = w
	seen := chanEpoch
	t.op, t.obj = OpWait, 0
	t.enabled = func() bool { return w.filled || chanEpoch != seen }
	t.park()
	if !w.filled {
		t.waiter = nil
	}
}

// SortedKeys returns the keys of m in a reproducible order (rewritten map ranges).
func SortedKeys[M ~map[K]V, K comparable, V any](m M) []K {
	keys := make([]K, 0, len(m))
	for k := range m {
		keys = append(keys, k)
	}
	if len(keys) > 1 {
		ss := make([]string, len(keys))
		for i, k := range keys {
			ss[i] = fmt.Sprint(k)
		}
		sort.Sort(&keySorter[K]{keys, ss})
	}
	return keys
}

type keySorter[K any] struct {
	k []K
	s []string
}

func (x *keySorter[K]) Len() int           { return len(x.k) }
func (x *keySorter[K]) Less(i, j int) bool { return x.s[i] < x.s[j] }
func (x *keySorter[K]) Swap(i, j int) {
	x.k[i], x.k[j] = x.k[j], x.k[i]
	x.s[i], x.s[j] = x.s[j], x.s[i]
}

// Gate is a harness-level latch visible to the scheduler: Wait blocks until Open was called.
type Gate struct{ open atomic.Bool }

func (g *Gate) Wait() {
	if Controlled() {
		Block(OpUser, uintptr(unsafe.Pointer(g)), func() bool { return g.open.Load() })
		return
	}
	for !g.open.Load() {
		time.Sleep(20 * time.Microsecond)
	}
}

func (g *Gate) Open() {
	Point(OpUser, uintptr(unsafe.Pointer(g)))
	g.open.Store(true)
}

func (g *Gate) IsOpen() bool { return g.open.Load() }
