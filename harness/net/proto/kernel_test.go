//go:build verif

package proto

// Receive-path kernel for C12 and C13: two real proto connections without nodes. The sending connection
// encodes real frames (SendPID/CallPID with the real encoder, flusher and link selection) into in-memory links;
// the receiving connection runs its real link readers, receive queues and queue workers; a recording gen.Core
// stands where the node would route the decoded message to a mailbox. Per frame this is a few dozen scheduling
// points instead of several hundred with two full nodes, so preemption bound 3 can be completed.

import (
	"fmt"
	"strings"
	"testing"

	"ergo.services/ergo/gen"
	"ergo.services/ergo/net/handshake"
	"verif.local/vsched"
	"verif.local/vsched/harn"
	"verif.local/vsched/vconn"
	vsync "verif.local/vsched/vsync"
)

func TestVerif(t *testing.T) { harn.Main(t) }

type nullLog struct{}

func (nullLog) Level() gen.LogLevel         { return gen.LogLevelDisabled }
func (nullLog) SetLevel(gen.LogLevel) error { return nil }
func (nullLog) Logger() string              { return "" }
func (nullLog) SetLogger(string)            {}
func (nullLog) Fields() []gen.LogField      { return nil }
func (nullLog) AddFields(...gen.LogField)   {}
func (nullLog) DeleteFields(...string)      {}
func (nullLog) PushFields() int             { return 0 }
func (nullLog) PopFields() int              { return 0 }
func (nullLog) Trace(string, ...any)        {}
func (nullLog) Debug(string, ...any)        {}
func (nullLog) Info(string, ...any)         {}
func (nullLog) Warning(string, ...any)      {}
func (nullLog) Error(f string, a ...any)    { kernelErrors = append(kernelErrors, fmt.Sprintf(f, a...)) }
func (nullLog) Panic(f string, a ...any) {
	kernelErrors = append(kernelErrors, "PANIC "+fmt.Sprintf(f, a...))
}

var kernelErrors []string

// recCore records what the receiving connection hands to the node
type recCore struct {
	gen.Core // any other method: nil pointer panic = the kernel reached code it does not model
	name     gen.Atom
	creation int64
	got      []string // "from->to:payload"
	active   int
	overlap  int
}

func (c *recCore) deliver(kind string, from gen.PID, to gen.PID, m any) error {
	c.active++
	if c.active > 1 {
		c.overlap++
	}
	vsched.Point(vsched.OpUser, 7)
	c.got = append(c.got, fmt.Sprintf("%s:%d->%d:%v", kind, from.ID, to.ID, short(m)))
	c.active--
	return nil
}

func short(m any) string {
	s := fmt.Sprint(m)
	if len(s) > 8 {
		return fmt.Sprintf("%s..(%d)", s[:6], len(s))
	}
	return s
}

func (c *recCore) RouteSendPID(from, to gen.PID, o gen.MessageOptions, m any) error {
	return c.deliver("send", from, to, m)
}
func (c *recCore) RouteCallPID(from, to gen.PID, o gen.MessageOptions, m any) error {
	return c.deliver("call", from, to, m)
}
func (c *recCore) RouteSendResponse(from, to gen.PID, o gen.MessageOptions, m any) error {
	c.active++
	vsched.Point(vsched.OpUser, 8)
	c.got = append(c.got, fmt.Sprintf("resp:%d->%d:ref%d:%v", from.ID, to.ID, o.Ref.ID[0], short(m)))
	c.active--
	return nil
}
func (c *recCore) RouteSendResponseError(from, to gen.PID, o gen.MessageOptions, err error) error {
	c.active++
	vsched.Point(vsched.OpUser, 9)
	c.got = append(c.got, fmt.Sprintf("ack:%d->%d:ref%d:%v", from.ID, to.ID, o.Ref.ID[0], err))
	c.active--
	return nil
}
func (c *recCore) RouteNodeDown(gen.Atom, error) {}
func (c *recCore) MakeRef() gen.Ref {
	return gen.Ref{Node: c.name, Creation: c.creation, ID: [3]uint64{1, 2, 3}}
}
func (c *recCore) Name() gen.Atom                { return c.name }
func (c *recCore) Creation() int64               { return c.creation }
func (c *recCore) PID() gen.PID                  { return gen.PID{Node: c.name, ID: 1, Creation: c.creation} }
func (c *recCore) LogLevel() gen.LogLevel        { return gen.LogLevelDisabled }
func (c *recCore) Security() gen.SecurityOptions { return gen.SecurityOptions{} }
func (c *recCore) EnvList() map[gen.Env]any      { return nil }

func mkConn(core *recCore, peer gen.Atom, peerCreation int64, pool int) *connection {
	res := gen.HandshakeResult{ConnectionID: "k", Peer: peer, PeerCreation: peerCreation, PeerFlags: gen.DefaultNetworkFlags, NodeFlags: gen.DefaultNetworkFlags,
		Custom: handshake.ConnectionOptions{PoolSize: pool,
			EncodeAtomCache: &vsync.Map{}, EncodeRegCache: &vsync.Map{}, EncodeErrCache: &vsync.Map{},
			DecodeAtomCache: &vsync.Map{}, DecodeRegCache: &vsync.Map{}, DecodeErrCache: &vsync.Map{}}}
	c, err := Create().NewConnection(core, res, nullLog{})
	if err != nil {
		panic(err)
	}
	return c.(*connection)
}

type kernelCfg struct {
	name     string
	pool     int
	fromID   uint64
	toID     uint64
	msgs     []any
	senders  int // concurrent sending threads (each sends all msgs with its own from id)
	qb, tb   int
	preempt  bool
	slowLink int // index of a link whose reader is held until the others are idle (-1: none)
}

func kernelScenario(prop string, k kernelCfg) {
	harn.Register(harn.Scenario{Property: prop, Name: k.name, Run: func(ctx *harn.Ctx) *harn.Result {
		return harn.Explore(ctx, harn.Sched{QuickBound: k.qb, ThoroughBound: k.tb, Preempt: k.preempt, Cache: true, Body: func(ex *vsched.Exec) string {
			kernelErrors = nil
			coreA := &recCore{name: "a@h", creation: 100}
			coreB := &recCore{name: "b@h", creation: 200}
			var ca, cb *connection
			var links [][2]*vconn.Conn
			ex.Thread("setup", func() {
				ca = mkConn(coreA, "b@h", 200, k.pool)
				cb = mkConn(coreB, "a@h", 100, k.pool)
				for i := 0; i < k.pool; i++ {
					x, y := vconn.Pair(fmt.Sprintf("a%d", i), fmt.Sprintf("b%d", i))
					links = append(links, [2]*vconn.Conn{x, y})
					if err := ca.Join(x, "k", nil, nil); err != nil {
						panic(err)
					}
					if err := cb.Join(y, "k", nil, nil); err != nil {
						panic(err)
					}
				}
			})
			ex.RunSetup()
			if k.slowLink >= 0 {
				links[k.slowLink][1].Hold = true
			}
			var errs []string
			for s := 0; s < k.senders; s++ {
				s := s
				from := gen.PID{Node: "a@h", ID: k.fromID + uint64(s), Creation: 100}
				to := gen.PID{Node: "b@h", ID: k.toID, Creation: 200}
				ex.Thread(fmt.Sprintf("S%d", s), func() {
					for _, m := range k.msgs {
						if err := ca.SendPID(from, to, gen.MessageOptions{KeepNetworkOrder: true}, m); err != nil {
							errs = append(errs, err.Error())
						}
					}
				})
			}
			if k.slowLink >= 0 {
				ex.ThreadLow("RELEASE", func() { links[k.slowLink][1].Hold = false })
			}
			ex.Run()
			for _, d := range ex.Deadlocked {
				ex.Fail("deadlock", "thread %s blocked forever", d)
			}
			// oracle: per sender, every message exactly once and in order; one delivery at a time per pair
			for s := 0; s < k.senders; s++ {
				pre := fmt.Sprintf("send:%d->%d:", k.fromID+uint64(s), k.toID)
				var got []string
				for _, g := range coreB.got {
					if strings.HasPrefix(g, pre) {
						got = append(got, strings.TrimPrefix(g, pre))
					}
				}
				var want []string
				for _, m := range k.msgs {
					want = append(want, short(m))
				}
				if len(errs) == 0 && fmt.Sprint(got) != fmt.Sprint(want) {
					kind := "network-order-violated"
					switch {
					case len(got) < len(want):
						kind = "network-message-lost"
					case len(got) > len(want):
						kind = "network-message-duplicated"
					}
					ex.Fail(kind, "sender %d -> receiver %d over %d link(s): sent %v, the receiving connection handed %v to the node (log: %v)", k.fromID+uint64(s), k.toID, k.pool, want, got, kernelErrors)
				}
			}
			if len(errs) > 0 {
				ex.Fail("send-failed", "SendPID returned %v", errs)
			}
			for _, e := range kernelErrors {
				if strings.HasPrefix(e, "PANIC") {
					ex.Fail("receive-worker-panic", "%s", e)
				}
			}
			out := strings.Join(coreB.got, " ")
			ex.Release()
			ca.Terminate(nil)
			cb.Terminate(nil)
			return out
		}})
	}})
}

func init() {
	big := strings.Repeat("L", 5000)
	for _, prop := range []string{"C12", "C13"} {
		// three small frames of one pair over one link: every schedule of link reader, queue workers and flusher
		kernelScenario(prop, kernelCfg{name: "proto-kernel-3frames", pool: 1, fromID: 1001, toID: 1001, msgs: []any{"m1", "m2", "m3"}, senders: 1, qb: 4, tb: 5, preempt: true, slowLink: -1})
		// two senders to one receiver (same receive queue), two frames each
		kernelScenario(prop, kernelCfg{name: "proto-kernel-2senders", pool: 1, fromID: 1001, toID: 1001, msgs: []any{"m1", "m2"}, senders: 2, qb: 2, tb: 3, preempt: true, slowLink: -1})
	}
	// small and large frames, two links, a slow link in each position
	for slow := -1; slow < 2; slow++ {
		kernelScenario("C13", kernelCfg{name: fmt.Sprintf("proto-kernel-mix-pool2-slow%d", slow+1), pool: 2, fromID: 1001, toID: 1002, msgs: []any{"s1", big, "s3"}, senders: 1, qb: 2, tb: 3, preempt: true, slowLink: slow})
	}
}

// replies: three responses for three different callers/references travel back to back; each must be handed to the
// node with its own addressee, reference and value (the routing data is read from a pooled frame buffer)
func init() {
	for _, prop := range []string{"C07", "C12"} {
		harn.Register(harn.Scenario{Property: prop, Name: "proto-kernel-3responses", Run: func(ctx *harn.Ctx) *harn.Result {
			return harn.Explore(ctx, harn.Sched{QuickBound: 2, ThoroughBound: 3, Preempt: true, Cache: true, Body: func(ex *vsched.Exec) string {
				kernelErrors = nil
				coreA := &recCore{name: "a@h", creation: 100}
				coreB := &recCore{name: "b@h", creation: 200}
				var ca, cb *connection
				ex.Thread("setup", func() {
					ca = mkConn(coreA, "b@h", 200, 1)
					cb = mkConn(coreB, "a@h", 100, 1)
					x, y := vconn.Pair("a0", "b0")
					if err := ca.Join(x, "k", nil, nil); err != nil {
						panic(err)
					}
					if err := cb.Join(y, "k", nil, nil); err != nil {
						panic(err)
					}
				})
				ex.RunSetup()
				var errs []string
				ex.Thread("S", func() {
					for i := uint64(1); i <= 3; i++ {
						from := gen.PID{Node: "a@h", ID: 1001, Creation: 100}
						to := gen.PID{Node: "b@h", ID: 2000 + i, Creation: 200}
						ref := gen.Ref{Node: "b@h", Creation: 200, ID: [3]uint64{70 + i, 0, 0}}
						if err := ca.SendResponse(from, to, gen.MessageOptions{Ref: ref, KeepNetworkOrder: true}, fmt.Sprintf("v%d", i)); err != nil {
							errs = append(errs, err.Error())
						}
					}
				})
				ex.Run()
				want := map[string]bool{"resp:1001->2001:ref71:v1": true, "resp:1001->2002:ref72:v2": true, "resp:1001->2003:ref73:v3": true}
				for _, g := range coreB.got {
					if !want[g] {
						ex.Fail("foreign-response", "three replies (v1 for caller 2001/ref 71, v2 for 2002/72, v3 for 2003/73) were sent; the receiving connection handed %q to the node (all: %v)", g, coreB.got)
					}
					delete(want, g)
				}
				if len(want) > 0 && len(errs) == 0 {
					ex.Fail("response-lost", "not handed to the node: %v (got %v, log %v)", want, coreB.got, kernelErrors)
				}
				out := strings.Join(coreB.got, " ")
				ex.Release()
				ca.Terminate(nil)
				cb.Terminate(nil)
				return out
			}})
		}})
	}
}

// important messages: two of them, for two receivers and with two references, travel back to back; every
// acknowledgement that comes back names the receiver and the reference of the message it acknowledges (the
// reference is read from a pooled frame buffer that is released before the acknowledgement is written)
func init() {
	harn.Register(harn.Scenario{Property: "C12", Name: "proto-kernel-2important", Run: func(ctx *harn.Ctx) *harn.Result {
		return harn.Explore(ctx, harn.Sched{QuickBound: 2, ThoroughBound: 3, Preempt: true, Cache: true, Body: func(ex *vsched.Exec) string {
			kernelErrors = nil
			coreA := &recCore{name: "a@h", creation: 100}
			coreB := &recCore{name: "b@h", creation: 200}
			var ca, cb *connection
			ex.Thread("setup", func() {
				ca = mkConn(coreA, "b@h", 200, 1)
				cb = mkConn(coreB, "a@h", 100, 1)
				x, y := vconn.Pair("a0", "b0")
				if err := ca.Join(x, "k", nil, nil); err != nil {
					panic(err)
				}
				if err := cb.Join(y, "k", nil, nil); err != nil {
					panic(err)
				}
			})
			ex.RunSetup()
			var errs []string
			ex.Thread("S", func() {
				for i := uint64(1); i <= 2; i++ {
					from := gen.PID{Node: "a@h", ID: 1001, Creation: 100}
					to := gen.PID{Node: "b@h", ID: 2000 + i, Creation: 200}
					ref := gen.Ref{Node: "a@h", Creation: 100, ID: [3]uint64{80 + i, 0, 0}}
					if err := ca.SendPID(from, to, gen.MessageOptions{Ref: ref, ImportantDelivery: true, KeepNetworkOrder: true}, fmt.Sprintf("i%d", i)); err != nil {
						errs = append(errs, err.Error())
					}
				}
			})
			ex.Run()
			for _, d := range ex.Deadlocked {
				ex.Fail("deadlock", "thread %s blocked forever", d)
			}
			want := map[string]bool{"ack:2001->1001:ref81:<nil>": true, "ack:2002->1001:ref82:<nil>": true}
			for _, g := range coreA.got {
				if !want[g] {
					ex.Fail("important-wrong-acknowledgement", "two important messages (reference 81 for receiver 2001, 82 for 2002) were sent and delivered; the sender's connection handed the acknowledgement %q to the node (all: %v)", g, coreA.got)
				}
				delete(want, g)
			}
			if len(want) > 0 && len(errs) == 0 {
				ex.Fail("important-acknowledgement-lost", "no acknowledgement for %v (got %v, delivered %v, log %v)", want, coreA.got, coreB.got, kernelErrors)
			}
			if len(errs) > 0 {
				ex.Fail("send-failed", "SendPID returned %v", errs)
			}
			out := strings.Join(coreA.got, " ") + " | " + strings.Join(coreB.got, " ")
			ex.Release()
			ca.Terminate(nil)
			cb.Terminate(nil)
			return out
		}})
	}})
}
