//go:build verif

package handshake

// C15, handshake part: cookie authentication.
//
//  - cookie-matrix: the real Start and Accept (and Join and Accept) run against each other over an
//    in-memory link for every combination of cookies, flags and size limits of a small alphabet;
//    they complete iff the cookies are equal and then the two results mirror each other.
//  - adversary-*: explicit-state search over the message sequences of a peer that does not know the
//    cookie. The adversary's vocabulary is symbolic: every string it ever saw (fields of the messages
//    of earlier honest sessions recorded in full, fields of what the victim sent in this session,
//    its own fresh values and the digests it can compute without the secret) may be put into every
//    string field of every handshake message. A state is the sequence of messages the victim has
//    accepted so far; each transition runs the real handshake code on a fresh session (fresh salts)
//    and replays the sequence. The victim must never return success.

import (
	"crypto/sha256"
	"encoding/binary"
	"errors"
	"fmt"
	"io"
	"net"
	"sort"
	"strings"
	"sync"
	"time"

	"ergo.services/ergo/gen"
	"ergo.services/ergo/lib"
	"ergo.services/ergo/net/edf"
	"verif.local/vsched/harn"
)

type namedNode struct {
	name     gen.Atom
	creation int64
}

func (n namedNode) Name() gen.Atom       { return n.name }
func (n namedNode) Creation() int64      { return n.creation }
func (n namedNode) Version() gen.Version { return gen.Version{Name: "v-" + string(n.name)} }

// ---- an in-memory connection whose reader announces that it waits for input -------------------------

type advConn struct {
	mu     sync.Mutex
	inbox  []byte
	outbox []byte
	closed bool
	wake   chan struct{}
	need   chan struct{} // the honest side is blocked in Read with nothing to read
	name   string
}

func newAdvConn(name string) *advConn {
	return &advConn{wake: make(chan struct{}, 1), need: make(chan struct{}, 1), name: name}
}

func (c *advConn) Read(p []byte) (int, error) {
	for {
		c.mu.Lock()
		if len(c.inbox) > 0 {
			n := copy(p, c.inbox)
			c.inbox = c.inbox[n:]
			c.mu.Unlock()
			return n, nil
		}
		if c.closed {
			c.mu.Unlock()
			return 0, io.EOF
		}
		c.mu.Unlock()
		select {
		case c.need <- struct{}{}:
		default:
		}
		<-c.wake
	}
}

func (c *advConn) Write(p []byte) (int, error) {
	c.mu.Lock()
	defer c.mu.Unlock()
	if c.closed {
		return 0, io.ErrClosedPipe
	}
	c.outbox = append(c.outbox, p...)
	return len(p), nil
}

// feed hands bytes to the honest side (adversary -> victim)
func (s *session) feed(p []byte) {
	s.idle = false
	s.conn.feed(p)
}

func (c *advConn) feed(p []byte) {
	c.mu.Lock()
	c.inbox = append(c.inbox, p...)
	c.mu.Unlock()
	select {
	case c.wake <- struct{}{}:
	default:
	}
}

func (c *advConn) Close() error {
	c.mu.Lock()
	c.closed = true
	c.mu.Unlock()
	select {
	case c.wake <- struct{}{}:
	default:
	}
	return nil
}

// take returns what the honest side has written since the last call
func (c *advConn) take() []byte {
	c.mu.Lock()
	defer c.mu.Unlock()
	b := c.outbox
	c.outbox = nil
	return b
}

type advAddr string

func (a advAddr) Network() string { return "mem" }
func (a advAddr) String() string  { return string(a) }

func (c *advConn) LocalAddr() net.Addr                { return advAddr(c.name + ":1") }
func (c *advConn) RemoteAddr() net.Addr               { return advAddr("adversary:2") }
func (c *advConn) SetDeadline(t time.Time) error      { return nil }
func (c *advConn) SetReadDeadline(t time.Time) error  { return nil }
func (c *advConn) SetWriteDeadline(t time.Time) error { return nil }

// ---- framing --------------------------------------------------------------------------------------

func frame(h *handshake, m any) []byte {
	rc := &bufConn{}
	if err := h.writeMessage(rc, m); err != nil {
		panic(err)
	}
	return rc.b
}

type bufConn struct {
	net.Conn
	b []byte
}

func (b *bufConn) Write(p []byte) (int, error) { b.b = append(b.b, p...); return len(p), nil }

// parseFrames decodes the complete handshake messages of a byte stream
func parseFrames(b []byte) (msgs []any) {
	for len(b) >= 6 {
		l := int(binary.BigEndian.Uint32(b[2:6]))
		if len(b) < 6+l {
			return
		}
		v, _, err := edf.Decode(b[6:6+l], edf.Options{})
		if err == nil {
			msgs = append(msgs, v)
		}
		b = b[6+l:]
	}
	return
}

// ---- honest sessions --------------------------------------------------------------------------------

type session struct {
	role   string // accept | start | join
	conn   *advConn
	done   chan struct{}
	res    gen.HandshakeResult
	err    error
	closed bool
	idle   bool // known to wait for input (nothing fed since)
}

const secret = "the-secret-cookie"

var (
	honestA = namedNode{"alice@host", 1001}
	honestB = namedNode{"bob@host", 2002}
	evil    = gen.Atom("evil@host")
)

func startSession(hs gen.NetworkHandshake, role string, who namedNode, joinID string) *session {
	s := &session{role: role, conn: newAdvConn(string(who.name)), done: make(chan struct{})}
	opts := gen.HandshakeOptions{Cookie: secret, Flags: gen.DefaultNetworkFlags, MaxMessageSize: 0}
	go func() {
		defer close(s.done)
		defer func() {
			if p := recover(); p != nil {
				s.err = fmt.Errorf("PANIC: %v", p)
			}
		}()
		switch role {
		case "accept":
			s.res, s.err = hs.Accept(who, s.conn, opts)
		case "start":
			s.res, s.err = hs.Start(who, s.conn, opts)
		case "join":
			_, s.err = hs.(*handshake).Join(who, s.conn, joinID, opts)
		}
	}()
	return s
}

// settle waits until the session either finished or waits for input; it reports whether it finished
func (s *session) settle() (finished bool) {
	if s.idle {
		return false
	}
	select {
	case <-s.done:
		return true
	case <-s.conn.need:
		// it cannot finish before it is fed: the inbox is empty
		s.idle = true
		return false
	}
}

// ---- the adversary's knowledge --------------------------------------------------------------------

type knowledge struct {
	salts, digests, ids []string // typed pools
	all                 []string // every string, in order of acquisition
	seen                map[string]bool
	src                 map[string]string // where a string was first seen: recorded | own | session<i> | derived
	cur                 string
	joins               []MessageJoin // the recorded join messages
}

func (k *knowledge) add(kind string, s string) {
	if k.seen == nil {
		k.seen = map[string]bool{}
		k.src = map[string]string{}
	}
	if _, ok := k.src[s]; !ok {
		k.src[s] = k.cur
	}
	if !k.seen[kind+"|"+s] {
		k.seen[kind+"|"+s] = true
		switch kind {
		case "salt":
			k.salts = append(k.salts, s)
		case "digest":
			k.digests = append(k.digests, s)
		case "id":
			k.ids = append(k.ids, s)
		}
	}
	if !k.seen["all|"+s] {
		k.seen["all|"+s] = true
		k.all = append(k.all, s)
	}
}

func h256(s string) string {
	h := sha256.New()
	h.Write([]byte(s))
	return fmt.Sprintf("%x", h.Sum(nil))
}

// learn adds the fields of a message and what can be computed from them without the secret
func (k *knowledge) learn(m any) {
	switch v := m.(type) {
	case MessageHello:
		k.add("salt", v.Salt)
		k.add("digest", v.Digest)
		k.derive(v.Salt, v.Digest)
	case MessageJoin:
		k.add("id", v.ConnectionID)
		k.add("salt", v.Salt)
		k.add("digest", v.Digest)
		k.derive(v.Salt, v.Digest)
	case MessageIntroduce:
		k.add("digest", v.Digest)
	case MessageAccept:
		if v.ID != "" {
			k.add("id", v.ID)
		}
		if v.Digest != "" {
			k.add("digest", v.Digest)
		}
	}
}

// derive: digests computed the way the protocol computes them, with a guessed or empty cookie
func (k *knowledge) derive(salt, digest string) {
	defer func(c string) { k.cur = c }(k.cur)
	k.cur = "derived"
	for _, guess := range []string{"", "guess"} {
		k.add("digest", h256(salt+":"+guess))
		k.add("digest", h256(salt+":"+digest+":"+guess))
		k.add("digest", h256(digest+":"+guess))
	}
}

func (k *knowledge) own() {
	k.cur = "own"
	k.add("salt", "adversary-salt")
	k.add("salt", "")
	k.add("digest", "")
	k.add("id", "adversary-id")
	k.derive("adversary-salt", h256("adversary-salt:guess"))
}

// record runs complete honest sessions with the secret cookie and returns every message exchanged
func recordTranscripts(hs gen.NetworkHandshake) (msgs []any) {
	relay := func(a, b *session) {
		for {
			fa, fb := a.settle(), b.settle()
			ba, bb := a.conn.take(), b.conn.take()
			msgs = append(msgs, parseFrames(ba)...)
			msgs = append(msgs, parseFrames(bb)...)
			if len(ba) > 0 {
				b.feed(ba)
			}
			if len(bb) > 0 {
				a.feed(bb)
			}
			if fa && fb {
				return
			}
			if len(ba) == 0 && len(bb) == 0 {
				panic("recording: honest sessions are stuck")
			}
		}
	}
	s, a := startSession(hs, "start", honestA, ""), startSession(hs, "accept", honestB, "")
	relay(s, a)
	if s.err != nil || a.err != nil {
		panic(fmt.Sprintf("recording: honest handshake failed: %v / %v", s.err, a.err))
	}
	j, a2 := startSession(hs, "join", honestA, s.res.ConnectionID), startSession(hs, "accept", honestB, "")
	relay(j, a2)
	if j.err != nil || a2.err != nil {
		panic(fmt.Sprintf("recording: honest join failed: %v / %v", j.err, a2.err))
	}
	return
}

// ---- adversary actions ------------------------------------------------------------------------------

// an action names a message type and, per string field, an index into a pool; it is resolved against
// the knowledge of the moment, so that the same action sequence is meaningful in every fresh session
type action struct {
	Type    string // hello | join | intro | accept | raw
	F       [3]int // field indices
	Node    int    // 0: evil name, 1: the recorded honest initiator's name, 2: the victim's own name
	Session int    // target session
}

func (a action) String() string {
	return fmt.Sprintf("%s%v/n%d>s%d", a.Type, a.F, a.Node, a.Session)
}

type pools struct{ salts, digests, ids []string }

func poolsOf(k *knowledge, typed bool) pools {
	if typed {
		return pools{k.salts, k.digests, k.ids}
	}
	return pools{k.all, k.all, k.all}
}

func nodeName(i int, victim namedNode) gen.Atom {
	switch i {
	case 1:
		return honestA.name
	case 2:
		return victim.name
	}
	return evil
}

func menu(p pools, sess int, nodes int) (m []action) {
	for s := range p.salts {
		for d := range p.digests {
			m = append(m, action{Type: "hello", F: [3]int{s, d}, Session: sess})
		}
	}
	for d := range p.digests {
		for n := 0; n < nodes; n++ {
			m = append(m, action{Type: "intro", F: [3]int{d}, Node: n, Session: sess})
		}
	}
	for i := range p.ids {
		m = append(m, action{Type: "accept", F: [3]int{i, -1}, Session: sess})
	}
	for d := range p.digests {
		m = append(m, action{Type: "accept", F: [3]int{-1, d}, Session: sess})
	}
	for i := range p.ids {
		for s := range p.salts {
			for d := range p.digests {
				for n := 0; n < 2; n++ {
					m = append(m, action{Type: "join", F: [3]int{i, s, d}, Node: n, Session: sess})
				}
			}
		}
	}
	return
}

func buildMsg(a action, p pools, victim namedNode) any {
	switch a.Type {
	case "hello":
		return MessageHello{Salt: p.salts[a.F[0]], Digest: p.digests[a.F[1]]}
	case "intro":
		return MessageIntroduce{Node: nodeName(a.Node, victim), Version: gen.Version{Name: "adv"}, Flags: gen.DefaultNetworkFlags,
			Creation: 666, AtomCache: edf.GetAtomCache(), RegCache: edf.GetRegCache(), ErrCache: edf.GetErrCache(), Digest: p.digests[a.F[0]]}
	case "accept":
		m := MessageAccept{PoolSize: 1}
		if a.F[0] >= 0 {
			m.ID = p.ids[a.F[0]]
		}
		if a.F[1] >= 0 {
			m.Digest = p.digests[a.F[1]]
		}
		return m
	case "join":
		return MessageJoin{Node: nodeName(a.Node, victim), ConnectionID: p.ids[a.F[0]], Salt: p.salts[a.F[1]], Digest: p.digests[a.F[2]]}
	}
	panic("unknown action " + a.Type)
}

// runPath plays an action sequence against fresh honest sessions; it returns the knowledge at the end,
// the sessions, and whether every session still waits for input
type pathResult struct {
	last     any // the message of the last action
	k        *knowledge
	sessions []*session
	bad      bool // an index was out of range (cannot happen for paths produced by the search)
}

func runPath(hs gen.NetworkHandshake, recorded []any, roles []string, typed bool, path []action) pathResult {
	k := &knowledge{cur: "recorded"}
	for _, m := range recorded {
		k.learn(m)
		if j, ok := m.(MessageJoin); ok {
			k.joins = append(k.joins, j)
		}
	}
	k.own()
	var ss []*session
	who := []namedNode{honestB, honestA}
	joinID := ""
	for _, m := range recorded {
		if a, ok := m.(MessageAccept); ok && a.ID != "" {
			joinID = a.ID
		}
	}
	for i, r := range roles {
		ss = append(ss, startSession(hs, r, who[i%2], joinID))
	}
	absorb := func() {
		for si, s := range ss {
			k.cur = fmt.Sprintf("session%d", si)
			if s.closed {
				continue
			}
			if s.settle() {
				s.closed = true
			}
			for _, m := range parseFrames(s.conn.take()) {
				k.learn(m)
			}
		}
	}
	absorb()
	pr := pathResult{k: k, sessions: ss}
	for _, a := range path {
		p := poolsOf(k, typed)
		for fi, idx := range a.F {
			var n int
			switch {
			case a.Type == "hello" && fi == 0, a.Type == "join" && fi == 1:
				n = len(p.salts)
			case a.Type == "hello" && fi == 1, a.Type == "intro" && fi == 0, a.Type == "accept" && fi == 1, a.Type == "join" && fi == 2:
				n = len(p.digests)
			case a.Type == "accept" && fi == 0, a.Type == "join" && fi == 0:
				n = len(p.ids)
			default:
				continue
			}
			if idx >= n {
				pr.bad = true
				return pr
			}
		}
		s := ss[a.Session]
		if s.closed {
			pr.bad = true
			return pr
		}
		pr.last = buildMsg(a, p, who[a.Session%2])
		s.feed(frame(hs.(*handshake), pr.last))
		absorb()
	}
	return pr
}

// liveJoin: the last message is a join whose id, salt and digest were all produced by the given honest
// session in this very run (the adversary passes a join on while it happens)
func liveJoin(x pathResult, from int) bool {
	j, ok := x.last.(MessageJoin)
	if !ok {
		return false
	}
	src := fmt.Sprintf("session%d", from)
	return x.k.src[j.Salt] == src && x.k.src[j.Digest] == src
}

func (pr pathResult) finish() {
	for _, s := range pr.sessions {
		s.conn.Close()
		<-s.done
	}
}

// search explores every action sequence up to the depth; only sequences whose every message was
// accepted (the target session still waits for more) are extended.
func adversarySearch(c *harn.Ctx, r *harn.Result, roles []string, typed bool, depth int) {
	oracle := len(roles) > 1
	hs := Create(Options{})
	recorded := recordTranscripts(hs)
	type state struct{ path []action }
	frontier := []state{{}}
	r.States = 1
	for d := 0; d < depth && len(frontier) > 0; d++ {
		var next []state
		for _, st := range frontier {
			pr := runPath(hs, recorded, roles, typed, st.path)
			p := poolsOf(pr.k, typed)
			var acts []action
			for si, s := range pr.sessions {
				if !s.closed {
					acts = append(acts, menu(p, si, 3)...)
				}
			}
			pr.finish()
			for _, a := range acts {
				if c.Expired() {
					r.Exhaustive, r.Cap = false, "time budget"
					return
				}
				np := append(append([]action{}, st.path...), a)
				x := runPath(hs, recorded, roles, typed, np)
				r.Executions++
				r.Transitions++
				s := x.sessions[a.Session]
				outcome := ""
				switch {
				case x.bad:
					outcome = "bad-index"
					r.Fail("harness-bad-index", "path %v", np)
				case s.closed && s.err == nil && oracle && s.res.Peer != evil && !(s.role == "accept" && a.Type == "join" && !liveJoin(x, 1-a.Session)):
					// the adversary only relayed between two honest sessions: each of them is connected to
					// a node that knows the cookie, under that node's name
					outcome = "completed-by-relay:" + s.role + ":" + a.Type
				case s.closed && s.err == nil:
					outcome = "completed:" + a.Type
					// what exactly made it complete decides the kind: the known weaknesses are named narrowly
					// (a true replay of a recorded join; a digest that an honest session computed in this very
					// run), everything else is an unclassified break of the authentication
					kind := "adversary-completed-handshake"
					other := fmt.Sprintf("session%d", 1-a.Session)
					if j, ok := x.last.(MessageJoin); ok && s.role == "accept" {
						kind = "forged-join-accepted"
						if liveJoin(x, 1-a.Session) {
							kind = "relayed-join-accepted-under-chosen-name"
						}
						for _, rj := range x.k.joins {
							if rj.ConnectionID == j.ConnectionID && rj.Salt == j.Salt && rj.Digest == j.Digest {
								kind = "replayed-join-accepted"
							}
						}
						honest := func(v string) bool {
							return x.k.src[v] == "recorded" || strings.HasPrefix(x.k.src[v], "session")
						}
						if kind == "forged-join-accepted" && honest(j.Digest) && honest(j.Salt) && honest(j.ConnectionID) {
							// all three fields are values that honest sessions put on the wire in OTHER messages: the
							// digest of a second Hello, H(salt2:digest1:cookie), has the very shape of a join digest,
							// H(id:salt:cookie)
							kind = "join-assembled-from-handshake-values"
						}
					} else if oracle {
						// the digests the victim checked on the way: all must stem from the honest oracle session
						relayed := true
						for _, pa := range np {
							if pa.Session != a.Session {
								continue
							}
							pp := poolsOf(x.k, typed)
							switch pa.Type {
							case "hello":
								relayed = relayed && x.k.src[pp.digests[pa.F[1]]] == other
							case "intro":
								if s.role == "accept" {
									relayed = relayed && x.k.src[pp.digests[pa.F[0]]] == other
								}
							}
						}
						if relayed {
							kind = "authenticated-by-relay-as-" + s.role + "-peer"
						}
					}
					r.Fail(kind, "%s (%s) returned success to a peer that does not know the cookie after %v; result peer=%q id=%q flags=%+v",
						s.role, roles, np, s.res.Peer, s.res.ConnectionID, s.res.NodeFlags)
				case s.closed:
					e := s.err.Error()
					if strings.HasPrefix(e, "PANIC") {
						r.Fail("handshake-panic", "%s after %v: %v", s.role, np, s.err)
					}
					outcome = "rejected:" + a.Type + ":" + e
				default:
					outcome = "accepted-so-far:" + a.Type
					next = append(next, state{np})
					r.States++
				}
				// completion of another honest session caused by this message
				for si, o := range x.sessions {
					if si != a.Session && o.closed && o.err == nil && o.res.Peer == evil {
						r.Fail("authenticated-by-relay-as-"+o.role+"-peer", "%s completed with peer %q after %v", o.role, o.res.Peer, np)
					}
				}
				r.Outcomes[outcome]++
				x.finish()
			}
		}
		frontier = next
	}
	r.Distinct = len(r.Outcomes)
}

func init() {
	// ---- cookie / flags / size-limit matrix ---------------------------------------------------------
	harn.Register(harn.Scenario{Property: "C15", Name: "cookie-matrix", Run: func(c *harn.Ctx) *harn.Result {
		r := harn.NewResult("enum")
		cookies := []string{"", "x", "y", "xx", "x:y", "X"}
		flagSets := []gen.NetworkFlags{
			gen.DefaultNetworkFlags,
			{Enable: true},
			{Enable: true, EnableRemoteSpawn: true, EnableImportantDelivery: true},
			{Enable: true, EnableRemoteApplicationStart: true, EnableFragmentation: true, EnableProxyTransit: true},
		}
		sizes := []int{0, 4096}
		pools := []int{1, 3}
		if !c.Thorough {
			pools = []int{3}
		}
		for _, ps := range pools {
			hs := Create(Options{PoolSize: ps})
			for _, cs := range cookies {
				for _, ca := range cookies {
					for fi, fs := range flagSets {
						for fj, fa := range flagSets {
							for _, ms := range sizes {
								for _, sameName := range []bool{false, true} {
									if sameName && (fi != 0 || fj != 0 || ms != 0) {
										continue
									}
									r.Executions++
									a, b := net.Pipe()
									nodeS, nodeA := honestA, honestB
									if sameName {
										nodeA.name = nodeS.name
									}
									type out struct {
										res gen.HandshakeResult
										err error
									}
									chS, chA := make(chan out, 1), make(chan out, 1)
									go func() {
										res, err := hs.Start(nodeS, a, gen.HandshakeOptions{Cookie: cs, Flags: fs, MaxMessageSize: ms})
										if err != nil {
											a.Close()
										}
										chS <- out{res, err}
									}()
									go func() {
										res, err := hs.Accept(nodeA, b, gen.HandshakeOptions{Cookie: ca, Flags: fa, MaxMessageSize: ms * 2})
										if err != nil {
											b.Close()
										}
										chA <- out{res, err}
									}()
									oS, oA := <-chS, <-chA
									a.Close()
									b.Close()
									desc := fmt.Sprintf("initiator cookie %q flags#%d, acceptor cookie %q flags#%d, size %d, same name %v", cs, fi, ca, fj, ms, sameName)
									want := cs == ca && !sameName
									switch {
									case !want && (oS.err == nil || oA.err == nil):
										kind := "connected-with-different-cookies"
										if sameName {
											kind = "connected-with-own-name"
										}
										r.Fail(kind, "%s: initiator err=%v acceptor err=%v", desc, oS.err, oA.err)
										r.Outcomes["wrongly connected"]++
									case !want:
										r.Outcomes["refused"]++
									case oS.err != nil || oA.err != nil:
										r.Fail("same-cookie-refused", "%s: initiator err=%v acceptor err=%v", desc, oS.err, oA.err)
										r.Outcomes["wrongly refused"]++
									default:
										r.Outcomes["connected"]++
										s, x := oS.res, oA.res
										var bad []string
										chk := func(ok bool, f string, a ...any) {
											if !ok {
												bad = append(bad, fmt.Sprintf(f, a...))
											}
										}
										chk(s.Peer == nodeA.name && x.Peer == nodeS.name, "names: initiator sees %q, acceptor sees %q", s.Peer, x.Peer)
										chk(s.PeerCreation == nodeA.creation && x.PeerCreation == nodeS.creation, "incarnations: %d / %d", s.PeerCreation, x.PeerCreation)
										chk(s.PeerFlags == fa && x.PeerFlags == fs, "peer flags: initiator sees %+v, acceptor sees %+v", s.PeerFlags, x.PeerFlags)
										chk(s.NodeFlags == fs && x.NodeFlags == fa, "own flags: %+v / %+v", s.NodeFlags, x.NodeFlags)
										chk(s.PeerMaxMessageSize == ms*2 && x.PeerMaxMessageSize == ms, "peer size limits: %d / %d", s.PeerMaxMessageSize, x.PeerMaxMessageSize)
										chk(s.NodeMaxMessageSize == ms && x.NodeMaxMessageSize == ms*2, "own size limits: %d / %d", s.NodeMaxMessageSize, x.NodeMaxMessageSize)
										chk(s.ConnectionID != "" && s.ConnectionID == x.ConnectionID, "connection ids: %q / %q", s.ConnectionID, x.ConnectionID)
										chk(s.PeerVersion == nodeA.Version() && x.PeerVersion == nodeS.Version(), "versions: %v / %v", s.PeerVersion, x.PeerVersion)
										so, ok1 := s.Custom.(ConnectionOptions)
										xo, ok2 := x.Custom.(ConnectionOptions)
										chk(ok1 && ok2 && so.PoolSize == ps && xo.PoolSize == ps, "pool sizes: %d / %d (acceptor's is %d)", so.PoolSize, xo.PoolSize, ps)
										if len(bad) > 0 {
											r.Fail("results-disagree", "%s: %s", desc, strings.Join(bad, "; "))
										}
										// a further link joins the connection iff it presents the same cookie
										for _, cj := range cookies {
											r.Executions++
											ja, jb := net.Pipe()
											chJ := make(chan error, 1)
											go func() {
												_, err := hs.(*handshake).Join(nodeS, ja, s.ConnectionID, gen.HandshakeOptions{Cookie: cj})
												if err != nil {
													ja.Close()
												}
												chJ <- err
											}()
											go func() {
												res, err := hs.Accept(nodeA, jb, gen.HandshakeOptions{Cookie: ca, Flags: fa})
												if err != nil {
													jb.Close()
												}
												chA <- out{res, err}
											}()
											ej, oj := <-chJ, <-chA
											ja.Close()
											jb.Close()
											switch {
											case cj != ca && (ej == nil || oj.err == nil):
												r.Fail("joined-with-different-cookie", "%s, joining cookie %q: join err=%v accept err=%v", desc, cj, ej, oj.err)
											case cj == ca && (ej != nil || oj.err != nil):
												r.Fail("same-cookie-join-refused", "%s: join err=%v accept err=%v", desc, ej, oj.err)
											case cj == ca && (oj.res.Peer != nodeS.name || oj.res.ConnectionID != s.ConnectionID):
												r.Fail("results-disagree", "%s: acceptor sees join of %q to %q", desc, oj.res.Peer, oj.res.ConnectionID)
											case cj == ca:
												r.Outcomes["joined"]++
											default:
												r.Outcomes["join refused"]++
											}
										}
									}
								}
							}
						}
					}
				}
			}
		}
		r.States, r.Transitions, r.Distinct = r.Executions, r.Executions, len(r.Outcomes)
		return r
	}})

	// ---- the adversary without oracle: one honest victim, vocabulary from recorded sessions -----------
	for _, role := range []string{"accept", "start", "join"} {
		role := role
		harn.Register(harn.Scenario{Property: "C15", Name: "adversary-replay-vs-" + role, Run: func(c *harn.Ctx) *harn.Result {
			r := harn.NewResult("opseq")
			adversarySearch(c, r, []string{role}, !c.Thorough, 4)
			r.Notes = append(r.Notes, "vocabulary: fields of two recorded honest sessions (handshake and join), of the victim's messages in this session, own values, digests computed with an empty and a guessed cookie; quick: fields stay in their role (salt, digest, id), thorough: any string in any field")
			return r
		}})
	}
	// ---- the adversary with an oracle: it also talks to a second honest session that knows the cookie
	// (the victim's own acceptor, another node of the cluster, or a node that dials the adversary) and
	// may put whatever that session says into its messages to the victim (reflection / relay)
	for _, roles := range [][]string{{"start", "accept"}, {"accept", "start"}, {"join", "accept"}, {"accept", "accept"}} {
		roles := roles
		harn.Register(harn.Scenario{Property: "C15", Name: "adversary-oracle-" + roles[0] + "-with-" + roles[1], Run: func(c *harn.Ctx) *harn.Result {
			r := harn.NewResult("opseq")
			depth := 4
			if c.Thorough {
				depth = 5
			}
			adversarySearch(c, r, roles, true, depth)
			r.Notes = append(r.Notes, "two honest sessions with the secret cookie; the adversary sends to either; a session that completes under the name the adversary chose is a violation, a pure relay between the two honest sessions is not")
			return r
		}})
	}
	_ = errors.New
	_ = sort.Strings
	_ = lib.RandomString
}
