//go:build verif

package handshake

import (
	"errors"
	"fmt"
	"io"
	"math"
	"reflect"
	"sort"
	"strings"
	"testing"
	"time"

	"ergo.services/ergo/gen"
	"ergo.services/ergo/lib"
	"ergo.services/ergo/net/edf"
	"verif.local/vsched/harn"
)

func TestVerif(t *testing.T) { harn.Main(t) }

// C11 — EDF round trip: what encodes, decodes to the same value.

type RTStruct struct {
	A any
	S []string
	M map[string]int
	E error
	B []byte
	T time.Time
	N [2]int8
}
type RTInner struct {
	X int16
	Y gen.Atom
}
type RTOuter struct {
	I  RTInner
	L  []RTInner
	MM map[gen.Atom]RTInner
	P  gen.PID
}
type RTNamed []int
type RTMapNamed map[gen.Atom][]byte
type RTNamedStr string
type RTMarsh struct{ V uint32 }

// RTBlob travels through encoding.BinaryMarshaler
type RTBlob struct{ D []byte }

func (b RTBlob) MarshalBinary() ([]byte, error) { return append([]byte{}, b.D...), nil }
func (b *RTBlob) UnmarshalBinary(p []byte) error {
	b.D = append([]byte{}, p...)
	return nil
}

// RTBlobMix places marshaled payloads at chosen offsets of the message (the encoder's buffer grows at 4096, 8192, ...)
type RTBlobMix struct {
	S string
	B RTBlob
	L []RTBlob
}
type RTLate struct {
	K string
	V []int
}

func (m RTMarsh) MarshalEDF(w io.Writer) error {
	_, err := w.Write([]byte{byte(m.V >> 24), byte(m.V >> 16), byte(m.V >> 8), byte(m.V)})
	return err
}
func (m *RTMarsh) UnmarshalEDF(b []byte) error {
	if len(b) != 4 {
		return fmt.Errorf("RTMarsh: %d bytes", len(b))
	}
	m.V = uint32(b[0])<<24 | uint32(b[1])<<16 | uint32(b[2])<<8 | uint32(b[3])
	return nil
}

var errSentinelA = errors.New("verif sentinel A")
var errSentinelB = errors.New("verif sentinel B with 100% and %s")

func registerAll() {
	for _, x := range []any{RTInner{}, RTStruct{}, RTOuter{}, RTNamed{}, RTMapNamed{}, RTNamedStr(""), RTMarsh{}, RTBlob{}, RTBlobMix{}} {
		if err := edf.RegisterTypeOf(x); err != nil && err != gen.ErrTaken {
			panic(fmt.Sprintf("register %T: %v", x, err))
		}
	}
	for _, e := range []error{errSentinelA, errSentinelB} {
		if err := edf.RegisterError(e); err != nil && err != gen.ErrTaken {
			panic(err)
		}
	}
	for _, a := range []gen.Atom{"verif_atom_a", "verif_atom_b"} {
		if err := edf.RegisterAtom(a); err != nil && err != gen.ErrTaken {
			panic(err)
		}
	}
}

// ---- equality: NaN by bit pattern, nil != empty (except []byte), errors by text / identity ----------

func norm(v reflect.Value) any {
	if !v.IsValid() {
		return nil
	}
	if v.Kind() != reflect.Interface && v.Type().Implements(reflect.TypeOf((*error)(nil)).Elem()) {
		if v.Kind() == reflect.Pointer && v.IsNil() {
			return "nil-error"
		}
		return "err:" + v.Interface().(error).Error()
	}
	switch v.Kind() {
	case reflect.Float32, reflect.Float64:
		return fmt.Sprintf("%s:%x", v.Type(), math.Float64bits(v.Float()))
	case reflect.Interface:
		if v.IsNil() {
			return "nil-iface"
		}
		return norm(v.Elem())
	case reflect.Slice:
		if v.Type().Elem().Kind() == reflect.Uint8 {
			return fmt.Sprintf("%s:%x", v.Type(), v.Bytes()) // nil and empty []byte are one value
		}
		if v.IsNil() {
			return "nil-slice:" + v.Type().String()
		}
		fallthrough
	case reflect.Array:
		out := []any{v.Type().String()}
		for i := 0; i < v.Len(); i++ {
			out = append(out, norm(v.Index(i)))
		}
		return out
	case reflect.Map:
		if v.IsNil() {
			return "nil-map:" + v.Type().String()
		}
		var items []string
		for _, k := range v.MapKeys() {
			items = append(items, fmt.Sprint(norm(k))+"=>"+fmt.Sprint(norm(v.MapIndex(k))))
		}
		sort.Strings(items)
		return "map:" + v.Type().String() + "{" + strings.Join(items, ";") + "}"
	case reflect.Struct:
		if t, ok := v.Interface().(time.Time); ok {
			return fmt.Sprintf("time:%d:%d", t.Unix(), t.Nanosecond())
		}
		out := []any{v.Type().String()}
		for i := 0; i < v.NumField(); i++ {
			if v.Type().Field(i).IsExported() {
				out = append(out, norm(v.Field(i)))
			}
		}
		return out
	}
	return fmt.Sprintf("%s:%v", v.Type(), v.Interface())
}

func short(s string) string {
	if len(s) > 160 {
		return s[:160] + fmt.Sprintf("...(%d chars)", len(s))
	}
	return s
}

// sentinel identity: a registered error must come back as the same value
func sentinels(v reflect.Value, out *[]error) {
	if !v.IsValid() {
		return
	}
	switch v.Kind() {
	case reflect.Interface:
		if !v.IsNil() {
			if e, ok := v.Interface().(error); ok {
				*out = append(*out, e)
				return
			}
			sentinels(v.Elem(), out)
		}
	case reflect.Slice, reflect.Array:
		for i := 0; i < v.Len(); i++ {
			sentinels(v.Index(i), out)
		}
	case reflect.Map:
		keys := v.MapKeys()
		sort.Slice(keys, func(i, j int) bool { return fmt.Sprint(keys[i]) < fmt.Sprint(keys[j]) })
		for _, k := range keys {
			sentinels(v.MapIndex(k), out)
		}
	case reflect.Struct:
		if _, ok := v.Interface().(time.Time); ok {
			return
		}
		for i := 0; i < v.NumField(); i++ {
			if v.Type().Field(i).IsExported() {
				sentinels(v.Field(i), out)
			}
		}
	}
}

// ---- value space ---------------------------------------------------------------------------------

type tv struct {
	name string
	vals []reflect.Value
}

func str(n int) string {
	b := make([]byte, n)
	for i := range b {
		b[i] = 'a' + byte(i%23)
	}
	return string(b)
}

func blobs(n, size int) []RTBlob {
	out := make([]RTBlob, n)
	for i := range out {
		out[i] = RTBlob{D: []byte(str(size))}
	}
	return out
}

func leaves() []tv {
	rv := reflect.ValueOf
	mk := func(name string, xs ...any) tv {
		t := tv{name: name}
		for _, x := range xs {
			t.vals = append(t.vals, rv(x))
		}
		return t
	}
	pid := gen.PID{Node: "n@h", ID: math.MaxUint64, Creation: math.MinInt64}
	return []tv{
		mk("bool", true, false),
		mk("int8", int8(-128), int8(0), int8(127)),
		mk("int16", int16(math.MinInt16), int16(-1), int16(math.MaxInt16)),
		mk("int32", int32(math.MinInt32), int32(1), int32(math.MaxInt32)),
		mk("int64", int64(math.MinInt64), int64(0), int64(math.MaxInt64)),
		mk("int", int(math.MinInt64), int(-1), int(math.MaxInt64)),
		mk("uint8", uint8(0), uint8(255)),
		mk("uint16", uint16(0), uint16(65535)),
		mk("uint32", uint32(0), uint32(math.MaxUint32)),
		mk("uint64", uint64(0), uint64(math.MaxUint64)),
		mk("uint", uint(0), uint(math.MaxUint64)),
		mk("float32", float32(0), float32(math.Copysign(0, -1)), float32(math.Inf(1)), math.Float32frombits(0x7fc00001), float32(math.MaxFloat32), float32(math.SmallestNonzeroFloat32)),
		mk("float64", 0.0, math.Copysign(0, -1), math.Inf(-1), math.Float64frombits(0x7ff8000000000001), math.MaxFloat64, math.SmallestNonzeroFloat64),
		mk("string", "", "x", str(255), str(256), str(65533), str(65534), str(65535), str(65536), "100% %s %d"),
		mk("bytes", []byte(nil), []byte{}, []byte{0}, make([]byte, 4095), make([]byte, 4096), make([]byte, 4097), []byte(str(65536))),
		mk("atom", gen.Atom(""), gen.Atom("a"), gen.Atom("verif_atom_a"), gen.Atom(str(254)), gen.Atom(str(255)), gen.Atom(str(256))),
		mk("pid", gen.PID{}, pid, gen.PID{Node: gen.Atom(str(255)), ID: 1, Creation: 1}, gen.PID{Node: "verif_atom_b", ID: 2, Creation: 2}),
		mk("processid", gen.ProcessID{}, gen.ProcessID{Name: "name", Node: "n@h"}, gen.ProcessID{Name: gen.Atom(str(255)), Node: gen.Atom(str(255))}),
		mk("alias", gen.Alias{}, gen.Alias{Node: "n@h", Creation: -1, ID: [3]uint64{1, math.MaxUint64, 3}}),
		mk("event", gen.Event{}, gen.Event{Name: "ev", Node: "n@h"}),
		mk("ref", gen.Ref{}, gen.Ref{Node: "n@h", Creation: 1, ID: [3]uint64{math.MaxUint64, 0, 1}}),
		// every atom-typed field of the identifier types at the 255/256 boundary, one at a time
		mk("pid-node256", gen.PID{Node: gen.Atom(str(256)), ID: 1, Creation: 1}),
		mk("processid-name256", gen.ProcessID{Name: gen.Atom(str(256)), Node: "n@h"}, gen.ProcessID{Name: gen.Atom(str(255)), Node: "n@h"}),
		mk("processid-node256", gen.ProcessID{Name: "name", Node: gen.Atom(str(256))}),
		mk("alias-node", gen.Alias{Node: gen.Atom(str(255)), Creation: 1, ID: [3]uint64{1, 2, 3}}, gen.Alias{Node: gen.Atom(str(256)), Creation: 1, ID: [3]uint64{1, 2, 3}}),
		mk("event-name", gen.Event{Name: gen.Atom(str(255)), Node: "n@h"}, gen.Event{Name: gen.Atom(str(256)), Node: "n@h"}, gen.Event{Name: gen.Atom(str(300)), Node: gen.Atom(str(255))}),
		mk("event-node", gen.Event{Name: "ev", Node: gen.Atom(str(255))}, gen.Event{Name: "ev", Node: gen.Atom(str(256))}),
		mk("ref-node", gen.Ref{Node: gen.Atom(str(255)), Creation: 1, ID: [3]uint64{1, 2, 3}}, gen.Ref{Node: gen.Atom(str(256)), Creation: 1, ID: [3]uint64{1, 2, 3}}),
		// payloads of a BinaryMarshaler around the growth steps of the encoder's buffer, alone and at chosen offsets
		mk("blob", RTBlob{}, RTBlob{D: []byte{}}, RTBlob{D: []byte(str(100))}, RTBlob{D: []byte(str(4000))}, RTBlob{D: []byte(str(4090))}, RTBlob{D: []byte(str(4096))}, RTBlob{D: []byte(str(5000))}, RTBlob{D: []byte(str(100000))}),
		mk("blobmix", RTBlobMix{}, RTBlobMix{S: str(3900), B: RTBlob{D: []byte(str(200))}}, RTBlobMix{S: str(4000), B: RTBlob{D: []byte(str(200))}}, RTBlobMix{S: str(4080), B: RTBlob{D: []byte(str(200))}},
			RTBlobMix{S: str(8100), B: RTBlob{D: []byte(str(200))}}, RTBlobMix{L: blobs(60, 100)}, RTBlobMix{S: "x", B: RTBlob{D: []byte("y")}, L: blobs(3, 2000)}),
		mk("time", time.Time{}, time.Date(2024, 2, 29, 23, 59, 59, 999999999, time.UTC), time.Date(2024, 2, 29, 23, 59, 59, 1, time.FixedZone("X", 5*3600+1800)), time.Date(1900, 1, 1, 12, 0, 0, 0, time.FixedZone("LMT", 19*60+32)), time.Date(2024, 6, 1, 0, 0, 0, 5, time.FixedZone("W", -(4*3600+56*60+2))), time.Date(9999, 12, 31, 23, 59, 59, 0, time.UTC), time.Date(-100, 1, 1, 0, 0, 0, 0, time.UTC), time.Unix(0, 0)),
		mk("named", RTNamed(nil), RTNamed{}, RTNamed{1, -1}),
		mk("namedstr", RTNamedStr(""), RTNamedStr(str(300))),
		mk("mapnamed", RTMapNamed(nil), RTMapNamed{}, RTMapNamed{"a": nil, "verif_atom_a": {1}}),
		mk("marsh", RTMarsh{}, RTMarsh{V: math.MaxUint32}),
		mk("inner", RTInner{}, RTInner{X: -1, Y: "verif_atom_b"}),
		mk("struct", RTStruct{}, RTStruct{A: RTNamed{1}, S: []string{}, M: map[string]int{}, E: errSentinelA, B: []byte{}, T: time.Unix(1, 1).UTC(), N: [2]int8{-1, 1}},
			RTStruct{A: []int(nil), S: []string{""}, M: map[string]int{"": 0}, E: errors.New("plain")}, RTStruct{A: RTInner{X: 5}}, RTStruct{A: map[string]any{"k": nil}}),
		mk("outer", RTOuter{}, RTOuter{I: RTInner{X: 1, Y: "y"}, L: []RTInner{{}, {X: 2}}, MM: map[gen.Atom]RTInner{"k": {X: 3}}, P: pid}),
	}
}

func errorVals() []error {
	return []error{nil, errors.New(""), errors.New("plain"), errSentinelA, errSentinelB, gen.ErrTimeout, gen.TerminateReasonNormal,
		fmt.Errorf("ctx: %w", gen.ErrTimeout), errors.New("100% wrong %s %d %v"), errors.New(str(32767)), errors.New(str(32768)), errors.New(str(65535)), errors.New(str(65536))}
}

// composite builders over a typed value list
func build(base tv, depth int) []tv {
	if len(base.vals) == 0 {
		return nil
	}
	t := base.vals[0].Type()
	first, last := base.vals[0], base.vals[len(base.vals)-1]
	var out []tv
	// slice
	st := reflect.SliceOf(t)
	sv := tv{name: "[]" + base.name}
	sv.vals = append(sv.vals, reflect.Zero(st), reflect.MakeSlice(st, 0, 0))
	one := reflect.MakeSlice(st, 1, 1)
	one.Index(0).Set(first)
	all := reflect.MakeSlice(st, len(base.vals), len(base.vals))
	for i, v := range base.vals {
		all.Index(i).Set(v)
	}
	sv.vals = append(sv.vals, one, all)
	out = append(out, sv)
	// arrays
	for _, n := range []int{0, 1, 2} {
		at := reflect.ArrayOf(n, t)
		a := reflect.New(at).Elem()
		if n >= 1 {
			a.Index(0).Set(first)
		}
		if n >= 2 {
			a.Index(1).Set(last)
		}
		out = append(out, tv{name: fmt.Sprintf("[%d]%s", n, base.name), vals: []reflect.Value{a}})
	}
	// map[string]T
	mt := reflect.MapOf(reflect.TypeOf(""), t)
	mv := tv{name: "map[string]" + base.name}
	m1 := reflect.MakeMap(mt)
	m1.SetMapIndex(reflect.ValueOf(""), first)
	m2 := reflect.MakeMap(mt)
	m2.SetMapIndex(reflect.ValueOf("a"), first)
	m2.SetMapIndex(reflect.ValueOf("b"), last)
	if len(base.vals) > 2 {
		m2.SetMapIndex(reflect.ValueOf("c"), base.vals[1])
	}
	mv.vals = append(mv.vals, reflect.Zero(mt), reflect.MakeMap(mt), m1, m2)
	out = append(out, mv)
	// map[T]string for comparable, non-float leaf kinds
	if t.Comparable() && t.Kind() != reflect.Float32 && t.Kind() != reflect.Float64 && t.Kind() != reflect.Interface && t.Kind() != reflect.Struct || t == reflect.TypeOf(gen.PID{}) || t == reflect.TypeOf(gen.Atom("")) {
		kt := reflect.MapOf(t, reflect.TypeOf(""))
		k := reflect.MakeMap(kt)
		k.SetMapIndex(first, reflect.ValueOf("first"))
		k.SetMapIndex(last, reflect.ValueOf("last"))
		out = append(out, tv{name: "map[" + base.name + "]string", vals: []reflect.Value{k}})
	}
	// []any holding the values, and a struct field of type any
	anyT := reflect.TypeOf((*any)(nil)).Elem()
	as := reflect.MakeSlice(reflect.SliceOf(anyT), 0, len(base.vals)+1)
	as = reflect.Append(as, reflect.Zero(anyT))
	for _, v := range base.vals {
		as = reflect.Append(as, v)
	}
	out = append(out, tv{name: "[]any<" + base.name + ">", vals: []reflect.Value{as}})
	sa := tv{name: "RTStruct{A:" + base.name + "}"}
	for _, v := range []reflect.Value{first, last} {
		sa.vals = append(sa.vals, reflect.ValueOf(RTStruct{A: v.Interface()}))
	}
	out = append(out, sa)
	return out
}

type cacheCfg struct {
	name     string
	enc, dec edf.Options
}

// caches as the two ends of a connection get them: the introduction travels through EDF, the
// real handshake code turns it into encode/decode caches
func cacheConfigs() []cacheCfg {
	h := &handshake{}
	intro := MessageIntroduce{AtomCache: edf.GetAtomCache(), RegCache: edf.GetRegCache(), ErrCache: edf.GetErrCache()}
	b := lib.TakeBuffer()
	if err := edf.Encode(intro, b, edf.Options{}); err != nil {
		panic(err)
	}
	v, _, err := edf.Decode(b.B, edf.Options{})
	if err != nil {
		panic(err)
	}
	remote := v.(MessageIntroduce)
	local := intro
	full := cacheCfg{name: "all-caches"}
	full.enc = edf.Options{AtomCache: h.makeEncodeAtomCache(local.AtomCache), RegCache: h.makeEncodeRegCache(local.RegCache), ErrCache: h.makeEncodeErrCache(local.ErrCache)}
	full.dec = edf.Options{AtomCache: h.makeDecodeAtomCache(remote.AtomCache), RegCache: h.makeDecodeRegCache(remote.RegCache), ErrCache: h.makeDecodeErrCache(local.ErrCache, remote.ErrCache)}
	// the peer's error table is not aligned with the local one: it registered one more error first, so every shared
	// error has another id there (two nodes in one process always have identical tables - two programs do not)
	shifted := map[uint16]error{}
	min := uint16(65535)
	for k := range local.ErrCache {
		if k < min {
			min = k
		}
	}
	shifted[min] = errors.New("an error only the peer has registered")
	for k, e := range local.ErrCache {
		shifted[k+1] = e
	}
	b2 := lib.TakeBuffer()
	if err := edf.Encode(MessageIntroduce{ErrCache: shifted}, b2, edf.Options{}); err != nil {
		panic(err)
	}
	v2, _, err := edf.Decode(b2.B, edf.Options{})
	if err != nil {
		panic(err)
	}
	shiftedCfg := cacheCfg{name: "error-cache-shifted-ids", enc: edf.Options{ErrCache: h.makeEncodeErrCache(shifted)},
		dec: edf.Options{ErrCache: h.makeDecodeErrCache(local.ErrCache, v2.(MessageIntroduce).ErrCache)}}
	return []cacheCfg{
		{name: "no-cache"},
		full,
		{name: "atom-cache", enc: edf.Options{AtomCache: full.enc.AtomCache}, dec: edf.Options{AtomCache: full.dec.AtomCache}},
		{name: "type-cache", enc: edf.Options{RegCache: full.enc.RegCache}, dec: edf.Options{RegCache: full.dec.RegCache}},
		{name: "error-cache", enc: edf.Options{ErrCache: full.enc.ErrCache}, dec: edf.Options{ErrCache: full.dec.ErrCache}},
		shiftedCfg,
	}
}

func roundTrip(r *harn.Result, cfg cacheCfg, typeName string, v reflect.Value) {
	val := v.Interface()
	r.Executions++
	b := lib.TakeBuffer()
	defer lib.ReleaseBuffer(b)
	err := safeEncode(val, b, cfg.enc)
	if err != nil {
		r.Outcomes["rejected"]++
		return // a value that cannot be represented is rejected when encoding
	}
	out, tail, err := safeDecode(b.B, cfg.dec)
	desc := fmt.Sprintf("%s value %s (cache configuration %s, %d bytes)", typeName, short(fmt.Sprint(norm(v))), cfg.name, b.Len())
	switch {
	case err != nil && strings.Contains(typeName, "map[[") && strings.Contains(err.Error(), "unable to unfold type (map key)"):
		r.Fail("array-map-key-not-decodable", "%s: Encode accepted it, Decode fails with: %v", desc, err)
	case err != nil && strings.Contains(typeName, "[0]"):
		r.Fail("zero-width-element-refused", "%s: Encode accepted it, Decode fails with: %v", desc, err)
	case err != nil:
		r.Fail("encoded-but-not-decodable", "%s: Encode accepted it, Decode fails with: %v", desc, err)
	case len(tail) != 0:
		r.Fail("bytes-left-over", "%s: %d bytes were not consumed", desc, len(tail))
	case val != nil && reflect.TypeOf(out) != reflect.TypeOf(val) && !(isErr(val) && isErr(out)):
		r.Fail("type-changed", "%s: decoded as %T", desc, out)
	case fmt.Sprint(norm(reflect.ValueOf(out))) != fmt.Sprint(norm(v)):
		r.Fail("value-changed", "%s: decoded as %s", desc, short(fmt.Sprint(norm(reflect.ValueOf(out)))))
	default:
		var s1, s2 []error
		sentinels(v, &s1)
		sentinels(reflect.ValueOf(out), &s2)
		for i := range s1 {
			// identity can only survive where the error cache was negotiated: without it a
			// registered error travels as its text, like any other error
			if cfg.enc.ErrCache == nil {
				break
			}
			if i < len(s2) && (s1[i] == errSentinelA || s1[i] == errSentinelB || s1[i] == gen.ErrTimeout || s1[i] == gen.TerminateReasonNormal) && s1[i] != s2[i] {
				r.Fail("sentinel-identity-lost", "%s: the registered error %q came back as a different error value", desc, s1[i])
			}
		}
		r.Outcomes["ok"]++
	}
}

func isErr(x any) bool { _, ok := x.(error); return ok }

func safeEncode(v any, b *lib.Buffer, o edf.Options) (err error) {
	defer func() {
		if r := recover(); r != nil {
			err = fmt.Errorf("PANIC in Encode: %v", r)
		}
	}()
	return edf.Encode(v, b, o)
}

func safeDecode(p []byte, o edf.Options) (v any, tail []byte, err error) {
	defer func() {
		if r := recover(); r != nil {
			err = fmt.Errorf("PANIC in Decode: %v", r)
		}
	}()
	return edf.Decode(p, o)
}

func init() {
	registerAll()
	for ci := 0; ci < 6; ci++ {
		ci := ci
		names := []string{"no-cache", "all-caches", "atom-cache", "type-cache", "error-cache", "error-cache-shifted-ids"}
		harn.Register(harn.Scenario{Property: "C11", Name: "roundtrip-" + names[ci], Run: func(c *harn.Ctx) *harn.Result {
			r := harn.NewResult("enum")
			cfg := cacheConfigs()[ci]
			distinct := 0
			ls := leaves()
			// errors as a leaf (interface typed): top level and inside collections
			errT := reflect.TypeOf((*error)(nil)).Elem()
			ev := tv{name: "error"}
			for _, e := range errorVals() {
				x := reflect.New(errT).Elem()
				if e != nil {
					x.Set(reflect.ValueOf(e))
				}
				ev.vals = append(ev.vals, x)
			}
			level0 := append(ls, ev)
			var level1, level2 []tv
			for _, l := range level0 {
				level1 = append(level1, build(l, 1)...)
			}
			for _, l := range level1 {
				if c.Thorough || len(l.vals) <= 4 {
					trimmed := l
					if !c.Thorough && len(trimmed.vals) > 3 {
						trimmed.vals = trimmed.vals[:3]
					}
					level2 = append(level2, build(trimmed, 2)...)
				}
			}
			for _, lvl := range [][]tv{level0, level1, level2} {
				for _, t := range lvl {
					for _, v := range t.vals {
						if !v.IsValid() || (v.Kind() == reflect.Interface && v.IsNil()) {
							continue
						}
						distinct++
						roundTrip(r, cfg, t.name, v)
					}
				}
			}
			r.States, r.Transitions, r.Distinct = distinct, r.Executions, distinct
			r.Samples = append(r.Samples, map[string]any{"cache_configuration": cfg.name, "types": len(level0) + len(level1) + len(level2), "values": distinct,
				"grammar": "leaf | []T | [0..2]T | map[string]T | map[T]string | []any | struct{A any} applied twice"})
			return r
		}})
	}

	// a type registered while a connection is being established: after the introduction (with the
	// list of registered types) was built, before the encode cache is made from it
	harn.Register(harn.Scenario{Property: "C11", Name: "roundtrip-late-registration", Run: func(c *harn.Ctx) *harn.Result {
		r := harn.NewResult("enum")
		h := &handshake{}
		intro := MessageIntroduce{AtomCache: edf.GetAtomCache(), RegCache: edf.GetRegCache(), ErrCache: edf.GetErrCache()}
		b := lib.TakeBuffer()
		if err := edf.Encode(intro, b, edf.Options{}); err != nil {
			panic(err)
		}
		v, _, err := edf.Decode(b.B, edf.Options{})
		if err != nil {
			panic(err)
		}
		remote := v.(MessageIntroduce)
		if err := edf.RegisterTypeOf(RTLate{}); err != nil {
			panic(err)
		}
		cfg := cacheCfg{name: "all-caches, RTLate registered after the introduction"}
		cfg.enc = edf.Options{AtomCache: h.makeEncodeAtomCache(intro.AtomCache), RegCache: h.makeEncodeRegCache(intro.RegCache), ErrCache: h.makeEncodeErrCache(intro.ErrCache)}
		cfg.dec = edf.Options{AtomCache: h.makeDecodeAtomCache(remote.AtomCache), RegCache: h.makeDecodeRegCache(remote.RegCache), ErrCache: h.makeDecodeErrCache(intro.ErrCache, remote.ErrCache)}
		late := tv{name: "late", vals: []reflect.Value{reflect.ValueOf(RTLate{}), reflect.ValueOf(RTLate{K: "k", V: []int{1, 2}})}}
		n := 0
		for _, t := range append([]tv{late}, build(late, 1)...) {
			for _, v := range t.vals {
				n++
				roundTrip(r, cfg, t.name, v)
			}
		}
		r.States, r.Transitions, r.Distinct = n, r.Executions, n
		r.Samples = append(r.Samples, map[string]any{"cache_configuration": cfg.name, "values": n})
		return r
	}})
}
