//go:build verif

package handshake

import (
	"encoding/binary"
	"encoding/hex"
	"fmt"
	"net"
	"os"
	"reflect"
	"runtime"
	"strconv"
	"strings"
	"sync"
	"time"

	"ergo.services/ergo/gen"
	"ergo.services/ergo/lib"
	"ergo.services/ergo/net/edf"
	"verif.local/vsched/harn"
)

// C16 — hostile input safety of decoder and handshake (the frame parser is in the node harness).

var edfTags = []byte{130, 131, 132, 140, 141, 142, 143, 144, 145, 146, 147, 148, 149, 150, 151, 152, 153, 154, 155, 156, 157, 158, 159, 170, 171, 172, 173, 174, 175, 255}

func announce(i int, desc string) {
	if p := os.Getenv("VERIF_PROGRESS"); p != "" {
		os.WriteFile(p, []byte(fmt.Sprintf("%d %s\n", i, desc)), 0o644)
	}
}

func resumeAt() int {
	n, _ := strconv.Atoi(os.Getenv("VERIF_RESUME"))
	return n
}

// corpus: valid encodings (no caches) of short values of every leaf type and first-level composite
func edfCorpus(maxLen int) (names []string, encs [][]byte) {
	var all []tv
	ls := leaves()
	all = append(all, ls...)
	for _, l := range ls {
		t := l
		if len(t.vals) > 2 {
			t.vals = []reflect.Value{t.vals[0], t.vals[len(t.vals)-1]}
		}
		all = append(all, build(t, 1)...)
	}
	seen := map[string]bool{}
	for _, t := range all {
		for _, v := range t.vals {
			if !v.IsValid() {
				continue
			}
			b := lib.TakeBuffer()
			if err := safeEncode(v.Interface(), b, edf.Options{}); err != nil || b.Len() == 0 || b.Len() > maxLen {
				continue
			}
			k := string(b.B)
			if seen[k] {
				continue
			}
			seen[k] = true
			names = append(names, t.name)
			encs = append(encs, append([]byte{}, b.B...))
		}
	}
	return
}

type decodeOracle struct {
	r     *harn.Result
	count int
	ms    runtime.MemStats
}

// one hostile input against edf.Decode
// giantArray reports whether the input carries an array type descriptor (tag 158) with more than
// 2^20 elements. Such inputs are NOT executed: the decoder instantiates the declared array type
// before it looks at the payload, so a 9-byte input can request gigabytes (recorded as the known
// finding allocation-out-of-proportion:array-descriptor on the inputs up to 2^20, which are run).
func giantArray(in []byte) bool {
	for i := 0; i+5 <= len(in); i++ {
		if in[i] == 158 && binary.BigEndian.Uint32(in[i+1:]) > 1<<20 {
			return true
		}
	}
	return false
}

func (o *decodeOracle) try(idx int, origin string, in []byte) {
	if giantArray(in) {
		o.r.Outcomes["not-run:array-descriptor-over-2^20-elements"]++
		return
	}
	o.count++
	o.r.Executions++
	runtime.ReadMemStats(&o.ms)
	before := o.ms.TotalAlloc
	t0 := time.Now()
	v, tail, err := func() (v any, tail []byte, err error) {
		defer func() {
			if r := recover(); r != nil {
				err = fmt.Errorf("PANIC escaped Decode: %v", r)
			}
		}()
		return edf.Decode(in, edf.Options{})
	}()
	el := time.Since(t0)
	runtime.ReadMemStats(&o.ms)
	alloc := o.ms.TotalAlloc - before
	desc := fmt.Sprintf("input #%d (mutation of a valid %s encoding, %d bytes: %s)", idx, origin, len(in), hexShort(in))
	if err != nil && strings.HasPrefix(err.Error(), "PANIC escaped") {
		o.r.Fail("decode-panic-escaped", "%s: %v", desc, err)
	}
	if limit := uint64(1<<20 + 64*len(in)); alloc > limit {
		kind := "allocation-out-of-proportion"
		if strings.HasPrefix(origin, "descriptor-depth") {
			kind = "allocation-out-of-proportion:nested-descriptor"
		}
		if len(in) > 1 && (in[0] == 158 || (in[0] == 130 && strings.Contains(string(in[:minInt(len(in), 12)]), string([]byte{158})))) {
			kind = "allocation-out-of-proportion:array-descriptor"
		}
		o.r.Fail(kind, "%s: Decode allocated %d bytes (limit for this input %d), result err=%v", desc, alloc, limit, err)
	}
	if el > 60*time.Second {
		o.r.Fail("decode-too-slow", "%s: Decode took %v", desc, el)
	}
	if err == nil {
		o.r.Outcomes["decoded"]++
		// a value that decodes successfully re-encodes to bytes that decode to the same value
		b := lib.TakeBuffer()
		if e := safeEncode(v, b, edf.Options{}); e != nil {
			// (time.Time: the standard library's UnmarshalBinary accepts zone offsets that its MarshalBinary refuses;
			// that asymmetry is not ergo's and says nothing about how ergo treats hostile input)
			if v != nil && !strings.Contains(e.Error(), "Time.MarshalBinary") {
				o.r.Fail("decoded-value-not-encodable", "%s decodes to %T but that value is refused by Encode: %v", desc, v, e)
			}
			return
		}
		v2, tail2, e := safeDecode(b.B, edf.Options{})
		if e != nil || len(tail2) != 0 || fmt.Sprint(norm(reflect.ValueOf(v2))) != fmt.Sprint(norm(reflect.ValueOf(v))) {
			o.r.Fail("reencode-mismatch", "%s decodes to %s; re-encoded and decoded again it is %s (err %v)", desc, short(fmt.Sprint(norm(reflect.ValueOf(v)))), short(fmt.Sprint(norm(reflect.ValueOf(v2)))), e)
		}
		_ = tail
	} else {
		o.r.Outcomes["rejected"]++
	}
}

func hexShort(b []byte) string {
	if len(b) > 48 {
		return hex.EncodeToString(b[:48]) + "..."
	}
	return hex.EncodeToString(b)
}

func init() {
	// ---- length / cache-id headers of atoms beyond 255, followed by enough bytes to satisfy them ------
	harn.Register(harn.Scenario{Property: "C16", Name: "edf-overlong-atom-headers", Run: func(c *harn.Ctx) *harn.Result {
		r := harn.NewResult("enum")
		o := &decodeOracle{r: r}
		long := gen.Atom(str(255))
		vals := []any{long, gen.PID{Node: long, ID: 1, Creation: 1}, gen.ProcessID{Name: long, Node: "n@h"}, gen.ProcessID{Name: "nm", Node: long},
			gen.Alias{Node: long, Creation: 1, ID: [3]uint64{1, 2, 3}}, gen.Event{Name: long, Node: "n@h"}, gen.Event{Name: "ev", Node: long},
			gen.Ref{Node: long, Creation: 1, ID: [3]uint64{1, 2, 3}}, []gen.Atom{long, "x"}, map[gen.Atom]int{long: 1}, RTInner{X: 1, Y: long}}
		pad := []byte(str(70000))
		idx := 0
		for _, v := range vals {
			b := lib.TakeBuffer()
			if err := safeEncode(v, b, edf.Options{}); err != nil {
				r.Fail("harness", "cannot encode %T: %v", v, err)
				continue
			}
			enc := append([]byte{}, b.B...)
			for pos := 0; pos+2 <= len(enc); pos++ {
				if enc[pos] != 0 || enc[pos+1] != 255 {
					continue
				}
				for _, l := range []uint16{256, 257, 300, 4096, 32768, 65535} {
					m := append([]byte{}, enc...)
					binary.BigEndian.PutUint16(m[pos:], l)
					m = append(m, pad...)
					idx++
					announce(idx, fmt.Sprintf("%T header %d", v, l))
					o.try(idx, fmt.Sprintf("%T-with-header-%d", v, l), m)
				}
			}
		}
		r.States, r.Transitions, r.Distinct = r.Executions, r.Executions, r.Executions
		return r
	}})

	// ---- EDF decoder: truncations, byte substitutions, inflated 4/2-byte fields ---------------------
	for shard := 0; shard < 16; shard++ {
		shard := shard
		harn.Register(harn.Scenario{Property: "C16", Name: fmt.Sprintf("edf-mutations-%d", shard), Run: func(c *harn.Ctx) *harn.Result {
			r := harn.NewResult("enum")
			maxLen := 64
			if c.Thorough {
				maxLen = 160
			}
			names, encs := edfCorpus(maxLen)
			o := &decodeOracle{r: r}
			idx := 0
			resume := resumeAt()
			try := func(origin string, in []byte) {
				idx++
				if idx%16 != shard || idx < resume || r.Cap != "" {
					return
				}
				if c.Expired() {
					r.Exhaustive, r.Cap = false, fmt.Sprintf("time budget (stopped at input #%d)", idx)
					return
				}
				announce(idx, origin+" "+hexShort(in))
				o.try(idx, origin, in)
			}
			for ci, enc := range encs {
				origin := names[ci]
				for n := 0; n < len(enc); n++ {
					try(origin, enc[:n])
				}
				for pos := 0; pos < len(enc); pos++ {
					vals := []byte{0x00, 0x01, 0x7f, 0x80, 0xff, enc[pos] + 1, enc[pos] - 1}
					if pos < 12 || c.Thorough {
						vals = append(vals, edfTags...)
					}
					for _, x := range vals {
						if x == enc[pos] {
							continue
						}
						m := append([]byte{}, enc...)
						m[pos] = x
						try(origin, m)
					}
					// 4-byte and 2-byte big-endian fields at this offset
					for _, u := range []uint32{0, 1, 255, 256, 65535, 65536, 1 << 24, 1 << 26} {
						if pos+4 <= len(enc) {
							m := append([]byte{}, enc...)
							binary.BigEndian.PutUint32(m[pos:], u)
							try(origin, m)
						}
					}
					for _, u := range []uint16{0, 1, 255, 256, 32767, 32768, 65534, 65535} {
						if pos+2 <= len(enc) {
							m := append([]byte{}, enc...)
							binary.BigEndian.PutUint16(m[pos:], u)
							try(origin, m)
						}
					}
				}
			}
			// nested type descriptors of increasing depth
			for _, depth := range []int{1, 2, 16, 256, 4096, 65535} {
				for _, tag := range []byte{157, 159, 158} {
					var d []byte
					for i := 0; i < depth; i++ {
						d = append(d, tag)
						if tag == 158 {
							d = append(d, 0, 0, 0, 1)
						}
						if tag == 159 {
							d = append(d, 141)
						}
					}
					d = append(d, 150)
					in := []byte{130, byte(len(d) >> 8), byte(len(d))}
					in = append(in, d...)
					in = append(in, 0, 0, 0, 0)
					try(fmt.Sprintf("descriptor-depth-%d", depth), in)
				}
			}
			r.States, r.Transitions, r.Distinct = o.count, o.count, o.count
			r.Samples = append(r.Samples, map[string]any{"corpus": len(encs), "max_encoding_length": maxLen, "inputs_this_shard": o.count,
				"mutations": "every truncation; per byte {00,01,7f,80,ff,+1,-1, type tags}; 4-byte fields {0,1,255,256,65535,65536,2^24,2^26}; 2-byte fields {0,1,255,256,32767,32768,65534,65535}; nested descriptors to depth 65535"})
			return r
		}})
	}

	// ---- handshake: hostile bytes against Accept and Start ---------------------------------------------
	harn.Register(harn.Scenario{Property: "C16", Name: "handshake-hostile-bytes", Run: func(c *harn.Ctx) *harn.Result {
		r := harn.NewResult("enum")
		hs := Create(Options{})
		// a valid first message of each role, captured from a real exchange
		firstStart, firstAccept := captureFirstMessages(hs)
		if len(firstStart) == 0 || len(firstAccept) == 0 {
			r.Fail("harness", "could not capture handshake messages")
			return r
		}
		resume := resumeAt()
		idx := 0
		hung := false
		run := func(role string, in []byte) {
			idx++
			if idx < resume || hung {
				return
			}
			announce(idx, role+" "+hexShort(in))
			r.Executions++
			a, b := net.Pipe()
			done := make(chan error, 1)
			go func() {
				defer func() {
					if p := recover(); p != nil {
						done <- fmt.Errorf("PANIC: %v", p)
					}
				}()
				var err error
				if role == "accept" {
					_, err = hs.Accept(fakeNode{}, b, gen.HandshakeOptions{Cookie: "secret"})
				} else {
					_, err = hs.Start(fakeNode{}, b, gen.HandshakeOptions{Cookie: "secret"})
				}
				done <- err
			}()
			go func() {
				if role == "start" {
					// the initiator speaks first: swallow its hello
					buf := make([]byte, 4096)
					a.SetReadDeadline(time.Now().Add(2 * time.Second))
					a.Read(buf)
				}
				a.Write(in)
				time.Sleep(2 * time.Millisecond)
				a.Close()
			}()
			select {
			case err := <-done:
				if err == nil {
					r.Fail("hostile-handshake-accepted", "%s completed the handshake on input %s", role, hexShort(in))
				} else if strings.HasPrefix(err.Error(), "PANIC") {
					r.Fail("handshake-panic", "%s on input %s: %v", role, hexShort(in), err)
				}
			case <-time.After(45 * time.Second): // (the handshake's own read timeout is 1 s; this only separates "returns" from "never returns")
				r.Fail("handshake-hangs", "%s did not return within 45 s on input %s (peer closed the connection)", role, hexShort(in))
				// the stuck goroutine may be spinning: do not pile up more of them
				r.Exhaustive, r.Cap = false, "stopped at the first input on which the handshake did not return"
				hung = true
			}
			b.Close()
		}
		for _, pair := range []struct {
			role string
			msg  []byte
		}{{"accept", firstStart}, {"start", firstAccept}} {
			msg := pair.msg
			for n := 0; n < len(msg); n++ {
				if c.Thorough || n < 24 || n >= len(msg)-12 || n%5 == 0 {
					run(pair.role, msg[:n])
				}
			}
			step := 1
			if !c.Thorough {
				step = 3
			}
			for pos := 0; pos < len(msg); pos += step {
				for _, x := range []byte{0x00, 0xff, msg[pos] + 1} {
					if x == msg[pos] {
						continue
					}
					m := append([]byte{}, msg...)
					m[pos] = x
					run(pair.role, m)
				}
			}
			for _, l := range []uint32{0, 1, 65535, 65536, 1 << 24, 1<<32 - 1} {
				m := append([]byte{}, msg...)
				binary.BigEndian.PutUint32(m[2:6], l)
				run(pair.role, m)
			}
			run(pair.role, []byte("GET / HTTP/1.1\r\n\r\n"))
			run(pair.role, make([]byte, 70000))
		}
		r.States, r.Transitions, r.Distinct = r.Executions, r.Executions, r.Executions
		r.Samples = append(r.Samples, map[string]any{"first_message_of_initiator_bytes": len(firstStart), "first_message_of_acceptor_bytes": len(firstAccept)})
		return r
	}})
}

// ---- a minimal gen.NodeHandshake for the handshake code ------------------------------------------------

type fakeNode struct{}

func (fakeNode) Name() gen.Atom       { return "n@localhost" }
func (fakeNode) Creation() int64      { return 12345 }
func (fakeNode) Version() gen.Version { return gen.Version{Name: "v"} }

func captureFirstMessages(hs gen.NetworkHandshake) (start, accept []byte) {
	a, b := net.Pipe()
	got := make(chan []byte, 2)
	go func() {
		hs.Start(fakeNode{}, a, gen.HandshakeOptions{Cookie: "secret"})
	}()
	go func() {
		buf := make([]byte, 65536)
		b.SetReadDeadline(time.Now().Add(2 * time.Second))
		n, _ := b.Read(buf)
		got <- append([]byte{}, buf[:n]...)
		b.Close()
	}()
	start = <-got
	a.Close()
	// acceptor's first message: play the real initiator against a real acceptor and record
	c, d := net.Pipe()
	rec := &recConn{Conn: d}
	go func() { hs.Accept(fakeNode{}, rec, gen.HandshakeOptions{Cookie: "secret"}) }()
	go func() { hs.Start(fakeNode{}, c, gen.HandshakeOptions{Cookie: "secret"}) }()
	for i := 0; i < 20000; i++ { // until the acceptor has written its first message (normally a few hundred microseconds)
		rec.mu.Lock()
		n := len(rec.writes)
		rec.mu.Unlock()
		if n > 0 {
			break
		}
		time.Sleep(time.Millisecond)
	}
	c.Close()
	d.Close()
	rec.mu.Lock()
	defer rec.mu.Unlock()
	if len(rec.writes) > 0 {
		accept = rec.writes[0]
	}
	return
}

type recConn struct {
	net.Conn
	mu     sync.Mutex
	writes [][]byte
}

func (r *recConn) Write(p []byte) (int, error) {
	r.mu.Lock()
	r.writes = append(r.writes, append([]byte{}, p...))
	r.mu.Unlock()
	return r.Conn.Write(p)
}

func minInt(a, b int) int {
	if a < b {
		return a
	}
	return b
}
