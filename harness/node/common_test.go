//go:build verif

package node

import (
	"fmt"
	"os/signal"
	"strings"
	"testing"
	rt "time"

	"ergo.services/ergo/act"
	"ergo.services/ergo/gen"
	"verif.local/vsched"
	"verif.local/vsched/harn"
)

func TestVerif(t *testing.T) { harn.Main(t) }

// ---- world: one node per execution --------------------------------------------------------

type World struct {
	ex     *vsched.Exec
	n      *node
	recs   map[string]*rec
	pids   map[string]gen.PID
	Check  func()
	out    []string
	tb     testing.TB
	nsetup int
	tag    string // distinguishes the worlds of a two-node scenario in thread names
}

var nodeLogLevel = gen.LogLevelDisabled

func startNode(name string, mode gen.NetworkMode) *node {
	opts := gen.NodeOptions{}
	opts.Network.Mode = mode
	opts.Log.DefaultLogger.Disable = true
	opts.Log.Level = nodeLogLevel
	n, err := Start(gen.Atom(name), opts, gen.Version{})
	if err != nil {
		panic(err)
	}
	return n.(*node)
}

// dropNode stops a node for good and lets go of it: Node.Stop leaves the goroutine started by SetCTRLC blocked
// on its signal channel, and that goroutine keeps the whole node (processes, mailboxes, connections, buffers)
// reachable; over tens of thousands of executions a worker grew to 60 GB. The channel is deregistered and closed,
// which is what the goroutine waits for.
func dropNode(n *node) {
	vsched.Quiet(func() { n.StopForce() })
	for i := 0; i < 1000 && n.ctrlc == nil && n.enableCTRLC.Load(); i++ {
		rt.Sleep(20 * rt.Microsecond) // the goroutine has not got as far as creating the channel yet
	}
	if c := n.ctrlc; c != nil {
		signal.Stop(c)
		func() {
			defer func() { recover() }()
			close(c)
		}()
	}
}

func waitSleep(n *node, pid gen.PID) {
	// (a generous real-time limit: this only ever expires when something is really stuck; a short one made
	// executions diverge on a heavily loaded machine)
	for i := 0; i < 6000000; i++ {
		st, err := n.ProcessState(pid)
		if err != nil || st == gen.ProcessStateSleep {
			return
		}
		if i < 2000 {
			rt.Sleep(5 * rt.Microsecond)
		} else {
			rt.Sleep(20 * rt.Microsecond)
		}
	}
	panic("process did not go to sleep: " + pid.String())
}

// nodeBody wraps the build function of a scenario into an execution body: fresh node, declared
// threads, run, oracle, tear-down.
func nodeBody(build func(w *World)) func(ex *vsched.Exec) string {
	return nodeBodyL(gen.LogLevelDisabled, build)
}

func nodeBodyL(level gen.LogLevel, build func(w *World)) func(ex *vsched.Exec) string {
	return func(ex *vsched.Exec) string {
		w := &World{ex: ex, recs: map[string]*rec{}, pids: map[string]gen.PID{}}
		nodeLogLevel = level
		w.n = startNode("verif@localhost", gen.NetworkModeDisabled)
		nodeLogLevel = gen.LogLevelDisabled
		build(w)
		ex.Run()
		for _, d := range ex.Deadlocked {
			ex.Fail("deadlock", "thread %s blocked forever on a lock or wait group", d)
		}
		if w.Check != nil {
			w.Check()
		}
		if post, ok := ex.Data["post"].(func()); ok {
			post()
		}
		ex.Release()
		n := w.n
		dropNode(n)
		return strings.Join(w.out, " ")
	}
}

func (w *World) Out(format string, a ...any) { w.out = append(w.out, fmt.Sprintf(format, a...)) }

// ---- probe actor: records every callback, detects overlap -----------------------------------

type rec struct {
	name     string
	active   int
	overlaps []string
	log      []string // callbacks in order
	term     []string // reasons given to Terminate
	afterT   []string // callbacks that began after Terminate began
	counter  int      // plain read-modify-write counter (lost update = overlap)
	calls    int
	inited   bool
}

type probeCfg struct {
	rec    *rec
	trap   bool
	onInit func(p *probe) error
	onMsg  func(p *probe, from gen.PID, m any) error
	onCall func(p *probe, from gen.PID, ref gen.Ref, m any) (any, error)
	onTerm func(p *probe, reason error)
	onLog  func(p *probe, m gen.MessageLog) error
}

type probe struct {
	act.Actor
	cfg probeCfg
	r   *rec
}

func (p *probe) enter(what string) {
	r := p.r
	if r.active != 0 {
		r.overlaps = append(r.overlaps, what)
	}
	r.active++
	c := r.counter
	vsched.Point(vsched.OpUser, 1)
	r.counter = c + 1
	r.calls++
	r.log = append(r.log, what)
	if len(r.term) > 0 && !strings.HasPrefix(what, "T:") {
		r.afterT = append(r.afterT, what)
	}
}
func (p *probe) exit() {
	vsched.Point(vsched.OpUser, 2)
	p.r.active--
}

func (p *probe) Init(args ...any) error {
	if p.cfg.rec == nil { // not preset by a factory
		p.cfg = args[0].(probeCfg)
	}
	p.r = p.cfg.rec
	p.SetTrapExit(p.cfg.trap)
	p.enter("I")
	defer p.exit()
	p.r.inited = true
	if p.cfg.onInit != nil {
		return p.cfg.onInit(p)
	}
	return nil
}

var msgNameHook func(m any) string

func msgName(m any) string {
	if msgNameHook != nil {
		if s := msgNameHook(m); s != "" {
			return s
		}
	}
	switch x := m.(type) {
	case gen.MessageExitPID:
		return "exitpid(" + x.Reason.Error() + ")"
	case gen.MessageDownPID:
		return "downpid(" + x.Reason.Error() + ")"
	case gen.MessageExitProcessID:
		return "exitname(" + x.Reason.Error() + ")"
	case gen.MessageDownProcessID:
		return "downname(" + x.Reason.Error() + ")"
	case gen.MessageExitAlias:
		return "exitalias(" + x.Reason.Error() + ")"
	case gen.MessageDownAlias:
		return "downalias(" + x.Reason.Error() + ")"
	case gen.MessageExitEvent:
		return "exitevent(" + x.Reason.Error() + ")"
	case gen.MessageDownEvent:
		return "downevent(" + x.Reason.Error() + ")"
	}
	return fmt.Sprint(m)
}

// doMsg makes a probe execute fn inside a callback (set-up of links, calls, ...); not logged.
type doMsg struct{ fn func(p *probe) error }

func (p *probe) HandleMessage(from gen.PID, m any) error {
	if d, ok := m.(doMsg); ok {
		return d.fn(p)
	}
	p.enter("M:" + msgName(m))
	defer p.exit()
	if p.cfg.onMsg != nil {
		return p.cfg.onMsg(p, from, m)
	}
	return nil
}
func (p *probe) HandleCall(from gen.PID, ref gen.Ref, m any) (any, error) {
	p.enter("C:" + fmt.Sprint(m))
	defer p.exit()
	if p.cfg.onCall != nil {
		return p.cfg.onCall(p, from, ref, m)
	}
	return "re:" + fmt.Sprint(m), nil
}
func (p *probe) HandleLog(m gen.MessageLog) error {
	p.enter("L:" + fmt.Sprintf(m.Format, m.Args...))
	defer p.exit()
	if p.cfg.onLog != nil {
		return p.cfg.onLog(p, m)
	}
	return nil
}
func (p *probe) HandleEvent(m gen.MessageEvent) error {
	p.enter("E:" + fmt.Sprint(m.Message))
	defer p.exit()
	return nil
}
func (p *probe) HandleInspect(from gen.PID, item ...string) map[string]string {
	p.enter("N")
	defer p.exit()
	return map[string]string{"k": "v"}
}
func (p *probe) Terminate(reason error) {
	p.r.term = append(p.r.term, reason.Error())
	p.enter("T:" + reason.Error())
	defer p.exit()
	if p.cfg.onTerm != nil {
		p.cfg.onTerm(p, reason)
	}
}

// spawnProbe starts a probe actor in a set-up phase (controlled, default schedule, run to
// quiescence), so that every execution starts from the same state.
func (w *World) spawnProbe(name string, cfg probeCfg, opts gen.ProcessOptions) gen.PID {
	r := &rec{name: name}
	cfg.rec = r
	w.recs[name] = r
	var pid gen.PID
	w.nsetup++
	w.Setup(fmt.Sprintf("setup%d-%s", w.nsetup, name), func() {
		var err error
		pid, err = w.n.Spawn(func() gen.ProcessBehavior { return &probe{} }, opts, cfg)
		if err != nil {
			panic(err)
		}
	})
	w.pids[name] = pid
	return pid
}

// serialOracle: the C01 clauses on one recorder.
func (w *World) serialOracle(name string) {
	r := w.recs[name]
	if len(r.overlaps) > 0 {
		w.ex.Fail("callback-overlap", "%s: callback(s) %v began while another callback of the same process was executing; log=%v", name, r.overlaps, r.log)
	}
	if r.counter != r.calls {
		w.ex.Fail("callback-overlap", "%s: lost update on unsynchronised actor state (%d callbacks, counter %d)", name, r.calls, r.counter)
	}
}

// finalOracle: the C05 clauses "terminate at most once, nothing afterwards".
func (w *World) finalOracle(name string) {
	r := w.recs[name]
	if len(r.term) > 1 {
		w.ex.Fail("terminate-twice", "%s: Terminate ran %d times: %v", name, len(r.term), r.term)
	}
	if len(r.afterT) > 0 {
		w.ex.Fail("callback-after-terminate", "%s: %v began after Terminate", name, r.afterT)
	}
	// "after its last other callback": Terminate must not begin while another callback is still executing
	for _, o := range r.overlaps {
		if strings.HasPrefix(o, "T:") {
			w.ex.Fail("terminate-before-last-callback-ended", "%s: Terminate (%s) began while another callback of the process was still executing; log=%v", name, o, r.log)
		}
	}
}

func handled(r *rec, prefix string) []string {
	var out []string
	for _, l := range r.log {
		if strings.HasPrefix(l, prefix) {
			out = append(out, strings.TrimPrefix(l, prefix))
		}
	}
	return out
}

func count(xs []string, x string) int {
	n := 0
	for _, y := range xs {
		if y == x {
			n++
		}
	}
	return n
}

// Do runs fn inside a callback of the named probe in a set-up phase.
func (w *World) Do(name string, fn func(p *probe) error) {
	w.nsetup++
	w.Setup(fmt.Sprintf("do%d-%s", w.nsetup, name), func() {
		if err := w.n.Send(w.pids[name], doMsg{fn}); err != nil {
			panic(err)
		}
	})
}

// Setup runs fn as a controlled thread with the default schedule until quiescence.
func (w *World) Setup(name string, fn func()) {
	w.ex.Thread(w.tag+name, fn)
	w.ex.RunSetup()
}

// watch makes observer obs (a trapping probe) link to and monitor target.
func (w *World) watch(obs string, target gen.PID) {
	if _, ok := w.pids[obs]; !ok {
		w.spawnProbe(obs, probeCfg{trap: true}, gen.ProcessOptions{})
	}
	w.Do(obs, func(p *probe) error {
		if err := p.LinkPID(target); err != nil {
			panic(err)
		}
		if err := p.MonitorPID(target); err != nil {
			panic(err)
		}
		return nil
	})
}

func (w *World) alive(name string) bool {
	_, err := w.n.ProcessInfo(w.pids[name])
	return err == nil
}

// ---- meta probe -------------------------------------------------------------------------------

type metaProbe struct {
	gen.MetaProcess
	r           *rec
	start       *vsched.Gate // Start() returns when this gate opens
	onMsg       func(m *metaProbe, from gen.PID, msg any) error
	onTerm      func(reason error)
	startPanics bool // Start() panics when the gate opens instead of returning
}

func (m *metaProbe) enter(what string) {
	r := m.r
	if r.active != 0 {
		r.overlaps = append(r.overlaps, what)
	}
	r.active++
	c := r.counter
	vsched.Point(vsched.OpUser, 1)
	r.counter = c + 1
	r.calls++
	r.log = append(r.log, what)
	if len(r.term) > 0 && !strings.HasPrefix(what, "T:") {
		r.afterT = append(r.afterT, what)
	}
}
func (m *metaProbe) exit() {
	vsched.Point(vsched.OpUser, 2)
	m.r.active--
}
func (m *metaProbe) Init(p gen.MetaProcess) error {
	m.MetaProcess = p
	m.enter("I")
	defer m.exit()
	return nil
}
func (m *metaProbe) Start() error {
	m.start.Wait()
	if m.startPanics {
		panic("boom in Start")
	}
	return nil
}
func (m *metaProbe) HandleMessage(from gen.PID, msg any) error {
	m.enter("M:" + msgName(msg))
	defer m.exit()
	if m.onMsg != nil {
		return m.onMsg(m, from, msg)
	}
	return nil
}
func (m *metaProbe) HandleCall(from gen.PID, ref gen.Ref, request any) (any, error) {
	m.enter("C:" + fmt.Sprint(request))
	defer m.exit()
	return "re:" + fmt.Sprint(request), nil
}
func (m *metaProbe) Terminate(reason error) {
	m.r.term = append(m.r.term, reason.Error())
	m.enter("T:" + reason.Error())
	defer m.exit()
	if m.onTerm != nil {
		m.onTerm(reason)
	}
}
func (m *metaProbe) HandleInspect(from gen.PID, item ...string) map[string]string {
	m.enter("N")
	defer m.exit()
	return nil
}

// spawnMeta spawns a meta process owned by a fresh probe "P<name>" inside a set-up phase (its
// Start goroutine must be a controlled thread).
func (w *World) spawnMeta(name string, opts gen.MetaOptions) (gen.Alias, *metaProbe) {
	r := &rec{name: name}
	w.recs[name] = r
	mp := &metaProbe{r: r, start: &vsched.Gate{}}
	var id gen.Alias
	owner := "P" + name
	w.Setup("setup-"+name, func() {
		pr := &rec{name: owner}
		w.recs[owner] = pr
		pid, err := w.n.Spawn(func() gen.ProcessBehavior { return &probe{} }, gen.ProcessOptions{}, probeCfg{rec: pr, onInit: func(p *probe) error {
			a, err := p.SpawnMeta(mp, opts)
			id = a
			return err
		}})
		if err != nil {
			panic(err)
		}
		w.pids[owner] = pid
	})
	return id, mp
}
