//go:build verif

package node

import (
	"fmt"
	"sort"
	"strings"

	"ergo.services/ergo/gen"
	"verif.local/vsched"
	"verif.local/vsched/harn"
)

// C04 — links and monitors: exactly one notification when the target goes away.

// target descriptor: process T with registered name "tname", one alias and one event
type c04target struct {
	pid   gen.PID
	name  gen.ProcessID
	alias gen.Alias
	event gen.Event
}

func (w *World) spawnTarget(tname string, regname gen.Atom, evname gen.Atom) *c04target {
	t := &c04target{}
	r := &rec{name: tname}
	w.recs[tname] = r
	w.Setup("spawn-"+tname, func() {
		pid, err := w.n.SpawnRegister(regname, func() gen.ProcessBehavior { return &probe{} }, gen.ProcessOptions{}, probeCfg{rec: r, onMsg: failer})
		if err != nil {
			panic(err)
		}
		t.pid = pid
		w.pids[tname] = pid
	})
	t.name = gen.ProcessID{Name: regname, Node: w.n.Name()}
	t.event = gen.Event{Name: evname, Node: w.n.Name()}
	w.Do(tname, func(p *probe) error {
		a, err := p.CreateAlias()
		if err != nil {
			panic(err)
		}
		t.alias = a
		if _, err := p.RegisterEvent(evname, gen.EventOptions{}); err != nil {
			panic(err)
		}
		return nil
	})
	return t
}

// notification descriptor "exit|down:kind:target:reason"
func notifOf(m any) string {
	switch x := m.(type) {
	case gen.MessageExitPID:
		return fmt.Sprintf("exit:pid:%d:%s", x.PID.ID, x.Reason)
	case gen.MessageDownPID:
		return fmt.Sprintf("down:pid:%d:%s", x.PID.ID, x.Reason)
	case gen.MessageExitProcessID:
		return fmt.Sprintf("exit:name:%s:%s", x.ProcessID.Name, x.Reason)
	case gen.MessageDownProcessID:
		return fmt.Sprintf("down:name:%s:%s", x.ProcessID.Name, x.Reason)
	case gen.MessageExitAlias:
		return fmt.Sprintf("exit:alias:%v:%s", x.Alias.ID, x.Reason)
	case gen.MessageDownAlias:
		return fmt.Sprintf("down:alias:%v:%s", x.Alias.ID, x.Reason)
	case gen.MessageExitEvent:
		return fmt.Sprintf("exit:event:%s:%s", x.Event.Name, x.Reason)
	case gen.MessageDownEvent:
		return fmt.Sprintf("down:event:%s:%s", x.Event.Name, x.Reason)
	}
	return ""
}

// observer: a trapping probe that records notifications
type observer struct {
	name   string
	notifs []string
}

func (w *World) spawnObserver(name string) *observer {
	o := &observer{name: name}
	w.spawnProbe(name, probeCfg{trap: true, onMsg: func(p *probe, from gen.PID, m any) error {
		if s := notifOf(m); s != "" {
			o.notifs = append(o.notifs, s)
		}
		return nil
	}}, gen.ProcessOptions{})
	return o
}

func request(p *probe, rel, kind string, t *c04target) error {
	var err error
	switch rel + ":" + kind {
	case "link:pid":
		err = p.LinkPID(t.pid)
	case "link:name":
		err = p.LinkProcessID(t.name)
	case "link:alias":
		err = p.LinkAlias(t.alias)
	case "link:event":
		_, err = p.LinkEvent(t.event)
	case "monitor:pid":
		err = p.MonitorPID(t.pid)
	case "monitor:name":
		err = p.MonitorProcessID(t.name)
	case "monitor:alias":
		err = p.MonitorAlias(t.alias)
	case "monitor:event":
		_, err = p.MonitorEvent(t.event)
	case "unlink:pid":
		err = p.UnlinkPID(t.pid)
	case "unlink:name":
		err = p.UnlinkProcessID(t.name)
	case "unlink:alias":
		err = p.UnlinkAlias(t.alias)
	case "unlink:event":
		err = p.UnlinkEvent(t.event)
	case "demonitor:pid":
		err = p.DemonitorPID(t.pid)
	case "demonitor:name":
		err = p.DemonitorProcessID(t.name)
	case "demonitor:alias":
		err = p.DemonitorAlias(t.alias)
	case "demonitor:event":
		err = p.DemonitorEvent(t.event)
	default:
		panic("bad request " + rel + ":" + kind)
	}
	return err
}

func targetKey(kind string, t *c04target) string {
	switch kind {
	case "pid":
		return fmt.Sprintf("pid:%d", t.pid.ID)
	case "name":
		return fmt.Sprintf("name:%s", t.name.Name)
	case "alias":
		return fmt.Sprintf("alias:%v", t.alias.ID)
	}
	return fmt.Sprintf("event:%s", t.event.Name)
}

func init() {
	// ---- races: one request against the target's disappearance --------------------------------
	type goer struct {
		name   string
		kinds  string // target kinds it removes
		reason string
		do     func(w *World, t *c04target)
	}
	goers := []goer{
		{"kill", "pid name alias event", "kill", func(w *World, t *c04target) { w.n.Kill(t.pid) }},
		{"fail", "pid name alias event", "E", func(w *World, t *c04target) { w.n.Send(t.pid, "fail") }},
		{"unreg", "name alias event", "unregistered", func(w *World, t *c04target) {
			w.n.Send(t.pid, doMsg{func(p *probe) error {
				kind := w.ex.Data["kind"].(string)
				switch kind {
				case "name":
					p.UnregisterName()
				case "alias":
					p.DeleteAlias(t.alias)
				case "event":
					p.UnregisterEvent(t.event.Name)
				}
				return nil
			}})
		}},
	}
	for _, rel := range []string{"link", "monitor"} {
		for _, kind := range []string{"pid", "name", "alias", "event"} {
			for _, g := range goers {
				if !strings.Contains(g.kinds, kind) {
					continue
				}
				rel, kind, g := rel, kind, g
				tiers := ""
				if g.name == "fail" && kind != "pid" {
					tiers = "thorough"
				}
				harn.Register(harn.Scenario{Property: "C04", Name: fmt.Sprintf("race-%s-%s-%s", rel, kind, g.name), Tiers: tiers, Run: func(c *harn.Ctx) *harn.Result {
					return harn.Explore(c, harn.Sched{QuickBound: 2, ThoroughBound: 3, Preempt: true, Cache: true, Body: nodeBody(func(w *World) {
						w.ex.Data["kind"] = kind
						t := w.spawnTarget("T", "tname", "tev")
						o := w.spawnObserver("L")
						var reqErr error
						asked := false
						w.ex.Thread("REQ", func() {
							w.n.Send(w.pids["L"], doMsg{func(p *probe) error { reqErr = request(p, rel, kind, t); asked = true; return nil }})
						})
						w.ex.Thread("GO", func() { g.do(w, t) })
						w.Check = func() {
							pre := "exit:"
							if rel == "monitor" {
								pre = "down:"
							}
							want := pre + targetKey(kind, t) + ":"
							n, wrong := 0, []string{}
							for _, x := range o.notifs {
								if strings.HasPrefix(x, want) {
									n++
									if !strings.HasSuffix(x, ":"+g.reason) {
										wrong = append(wrong, x)
									}
								} else {
									w.ex.Fail("foreign-notification", "observer received %q, which it never asked for (asked %s %s)", x, rel, kind)
								}
							}
							switch {
							case !asked:
								w.ex.Fail("request-not-run", "requester never ran")
							case reqErr == nil && n == 0:
								w.ex.Fail("request-ok-no-notification", "%s %s returned nil, the target went away (%s) and the requester was never notified", rel, kind, g.name)
							case reqErr != nil && n > 0:
								w.ex.Fail("request-failed-but-notified", "%s %s returned %v but %d notification(s) arrived", rel, kind, reqErr, n)
							case n > 1:
								w.ex.Fail("notified-twice", "%s %s: %d notifications %v", rel, kind, n, o.notifs)
							}
							if len(wrong) > 0 {
								w.ex.Fail("wrong-reason", "notification %v, expected reason %q", wrong, g.reason)
							}
							w.Out("req=%v notifs=%v", reqErr, o.notifs)
						}
					})})
				}})
			}
		}
	}
	// spawn with LinkChild: the child terminates from its first (self-sent) message
	harn.Register(harn.Scenario{Property: "C04", Name: "race-spawn-linkchild", Run: func(c *harn.Ctx) *harn.Result {
		return harn.Explore(c, harn.Sched{QuickBound: 2, ThoroughBound: 3, Preempt: true, Cache: true, Body: nodeBody(func(w *World) {
			o := &observer{name: "P"}
			var child gen.PID
			var spErr error
			cr := &rec{name: "CH"}
			w.recs["CH"] = cr
			w.spawnProbe("P", probeCfg{trap: true, onMsg: func(p *probe, from gen.PID, m any) error {
				if s := notifOf(m); s != "" {
					o.notifs = append(o.notifs, s)
					return nil
				}
				if m == "spawn" {
					child, spErr = p.Spawn(func() gen.ProcessBehavior { return &probe{} }, gen.ProcessOptions{LinkChild: true}, probeCfg{rec: cr, onMsg: failer, onInit: func(c *probe) error {
						c.Send(c.PID(), "fail")
						return nil
					}})
				}
				return nil
			}}, gen.ProcessOptions{})
			w.ex.Thread("S", func() { w.n.Send(w.pids["P"], "spawn") })
			w.Check = func() {
				if spErr != nil {
					w.ex.Fail("spawn-failed", "%v", spErr)
					return
				}
				want := fmt.Sprintf("exit:pid:%d:E", child.ID)
				if n := count(o.notifs, want); n != 1 {
					w.ex.Fail("linkchild-no-notification", "child spawned with LinkChild terminated (reason E), parent received %v (want exactly one %s)", o.notifs, want)
				}
				w.Out("notifs=%v", o.notifs)
			}
		})})
	}})

	// ---- histories (Engine B): reference model = set of relations --------------------------------
	for _, hkind := range []string{"pid", "name", "alias", "event", "metaalias"} {
		hkind := hkind
		// "metaalias": the target is the alias of a meta process owned by T; it goes away with T
		kind := hkind
		if hkind == "metaalias" {
			kind = "alias"
		}
		alphabet := []string{"O1.link", "O1.unlink", "O1.monitor", "O1.demonitor", "O2.link", "O2.monitor", "T.kill", "T.normal", "O1.normal"}
		if hkind == "metaalias" {
			alphabet = append(alphabet, "T.shutdown-by-stranger")
		}
		switch hkind {
		case "name":
			// (claim-target: the observer tries to take the name for itself while T holds it - refused, and without
			// consequences for T's name when that observer terminates later)
			alphabet = append(alphabet, "T.unregister", "T.register", "O2.claim-target", "O2.normal")
		case "alias":
			// further aliases of the same owner come and go: they must not disturb the watched (first) one
			alphabet = append(alphabet, "T.unregister", "T.alias-more", "T.delalias-other")
		case "event":
			alphabet = append(alphabet, "T.unregister", "T.register", "O2.claim-target", "O2.normal")
		}
		spec := harn.OpSeqSpec{Alphabet: alphabet, DepthQuick: 5, DepthThorough: 7, NoDedupQuick: 3, NoDedupThorough: 4}
		spec.Run = func(hist []int, fail func(kind, format string, a ...any)) string {
			key := ""
			fails, _ := vsched.RunOnce(10, nodeBody(func(w *World) {
				w.ex.Data["kind"] = kind
				t := w.spawnTarget("T", "tname", "tev")
				if hkind == "metaalias" {
					w.Do("T", func(p *probe) error {
						a, err := p.SpawnMeta(&metaProbe{r: &rec{name: "TM"}, start: &vsched.Gate{}}, gen.MetaOptions{})
						if err != nil {
							panic(err)
						}
						t.alias = a
						return nil
					})
				}
				obs := map[string]*observer{"O1": w.spawnObserver("O1"), "O2": w.spawnObserver("O2")}
				// model
				rels := map[string]bool{} // "O1|link"
				alive := map[string]bool{"T": true, "O1": true, "O2": true}
				present := true // the target (name/alias/event) exists
				seenN := map[string]int{}
				tk := targetKey(kind, t)
				var others []gen.Alias
				for step, opi := range hist {
					op := alphabet[opi]
					who, what, _ := strings.Cut(op, ".")
					expect := map[string][]string{} // observer -> expected new notifications
					var gotErr error
					ran := false
					goAway := func(reason string) {
						for r := range rels {
							o, rel, _ := strings.Cut(r, "|")
							pre := "exit:"
							if rel == "monitor" {
								pre = "down:"
							}
							if alive[o] {
								expect[o] = append(expect[o], pre+tk+":"+reason)
							}
							delete(rels, r)
						}
					}
					switch {
					case who == "T" && (what == "kill" || what == "normal" || what == "shutdown-by-stranger"):
						if !alive["T"] {
							key = ""
							return
						}
						if what == "kill" {
							w.Setup(fmt.Sprintf("op%d", step), func() { w.n.Kill(t.pid) })
						} else if what == "shutdown-by-stranger" {
							w.Setup(fmt.Sprintf("op%d", step), func() { w.n.SendExit(t.pid, gen.TerminateReasonShutdown) })
							what = "shutdown"
						} else {
							w.Setup(fmt.Sprintf("op%d", step), func() { w.n.Send(t.pid, "normal") })
						}
						alive["T"] = false
						if present {
							goAway(what)
						}
						present = false
					case who == "T" && what == "unregister":
						if !alive["T"] || !present {
							key = ""
							return
						}
						w.Do("T", func(p *probe) error {
							switch kind {
							case "name":
								return nilErr(p.UnregisterName())
							case "alias":
								return nilErr(p.DeleteAlias(t.alias))
							case "event":
								return nilErr(p.UnregisterEvent(t.event.Name))
							}
							return nil
						})
						goAway("unregistered")
						present = false
					case who == "T" && what == "alias-more":
						if !alive["T"] || len(others) >= 2 {
							key = ""
							return
						}
						w.Do("T", func(p *probe) error {
							a, err := p.CreateAlias()
							if err == nil {
								others = append(others, a)
							}
							return nilErr(err)
						})
					case who == "T" && what == "delalias-other":
						if !alive["T"] || len(others) == 0 {
							key = ""
							return
						}
						a := others[len(others)-1]
						others = others[:len(others)-1]
						w.Do("T", func(p *probe) error { return nilErr(p.DeleteAlias(a)) })
					case who == "T" && what == "register":
						if !alive["T"] || present {
							key = ""
							return
						}
						w.Do("T", func(p *probe) error {
							switch kind {
							case "name":
								return nilErr(p.RegisterName(t.name.Name))
							case "event":
								_, err := p.RegisterEvent(t.event.Name, gen.EventOptions{})
								return nilErr(err)
							}
							return nil
						})
						present = true
					case what == "claim-target": // refused while T holds the name/event; histories in which it is free are not followed
						if !alive[who] || !present || !alive["T"] {
							key = ""
							return
						}
						w.Do(who, func(p *probe) error {
							if kind == "name" {
								gotErr = p.RegisterName(t.name.Name)
							} else {
								_, gotErr = p.RegisterEvent(t.event.Name, gen.EventOptions{})
							}
							ran = true
							return nil
						})
						if !ran || gotErr == nil {
							fail("request-result", "%s: claiming the %s that T holds returned %v (ran=%v)", op, kind, gotErr, ran)
						}
					case what == "normal": // observer terminates
						if !alive[who] {
							key = ""
							return
						}
						w.Setup(fmt.Sprintf("op%d", step), func() { w.n.Send(w.pids[who], doMsg{func(p *probe) error { return gen.TerminateReasonNormal }}) })
						alive[who] = false
						for r := range rels {
							if strings.HasPrefix(r, who+"|") {
								delete(rels, r)
							}
						}
					default: // link / unlink / monitor / demonitor by an observer
						if !alive[who] {
							key = ""
							return
						}
						w.Do(who, func(p *probe) error { gotErr = request(p, what, kind, t); ran = true; return nil })
						if !ran {
							fail("request-not-run", "%s never executed", op)
						}
						rel := strings.TrimPrefix(strings.TrimPrefix(what, "un"), "de")
						r := who + "|" + rel
						switch what {
						case "link", "monitor":
							wantErr := !present || rels[r]
							if wantErr != (gotErr != nil) {
								fail("request-result", "%s on %s: returned %v (target present=%v, relation already there=%v)", op, tk, gotErr, present, rels[r])
							}
							if gotErr == nil {
								rels[r] = true
							}
						default:
							if gotErr == nil {
								delete(rels, r)
							} else if rels[r] && present {
								fail("request-result", "%s on %s returned %v although the relation exists", op, tk, gotErr)
							}
						}
					}
					// compare notifications received in this step with the model
					for name, o := range obs {
						fresh := o.notifs[seenN[name]:]
						seenN[name] = len(o.notifs)
						exp := expect[name]
						sort.Strings(exp)
						got := append([]string{}, fresh...)
						sort.Strings(got)
						if strings.Join(exp, ",") != strings.Join(got, ",") {
							k := "notification-mismatch"
							if len(got) < len(exp) {
								k = "notification-missing"
							} else if len(got) > len(exp) {
								k = "notification-unexpected"
							}
							fail(k, "after %v: observer %s received %v, the relation model predicts %v", namesOf(alphabet, hist[:step+1]), name, got, exp)
						}
					}
					// the target manager's view of the relations must agree with the model
					if alive["T"] || true {
						var tv any
						switch kind {
						case "pid":
							tv = t.pid
						case "name":
							tv = t.name
						case "alias":
							tv = t.alias
						default:
							tv = t.event
						}
						var real, model []string
						for _, on := range []string{"O1", "O2"} {
							if !alive[on] {
								continue // relations of a terminated requester are C06's concern
							}
							if w.n.targetManager.HasLink(w.pids[on], tv) {
								real = append(real, on+"|link")
							}
							if w.n.targetManager.HasMonitor(w.pids[on], tv) {
								real = append(real, on+"|monitor")
							}
						}
						for r := range rels {
							model = append(model, r)
						}
						sort.Strings(model)
						// the per-target view of the table (used when the target goes away)
						cons := map[string]bool{}
						for _, p := range w.n.targetManager.GetConsumersForTarget(tv) {
							cons[w.nameOf(p)] = true
						}
						for _, on := range []string{"O1", "O2"} {
							if alive[on] && cons[on] != (rels[on+"|link"] || rels[on+"|monitor"]) {
								fail("relation-index-mismatch", "after %v: consumers recorded for %s are %v, model relations %v", namesOf(alphabet, hist[:step+1]), tk, cons, model)
							}
						}
						if strings.Join(real, ",") != strings.Join(model, ",") {
							fail("relation-table-mismatch", "after %v: relation table holds %v for %s, model %v", namesOf(alphabet, hist[:step+1]), real, tk, model)
						}
					}
				}
				var rs []string
				for r := range rels {
					rs = append(rs, r)
				}
				sort.Strings(rs)
				key = fmt.Sprintf("alive=%v,%v,%v present=%v rels=%v others=%d", alive["T"], alive["O1"], alive["O2"], present, rs, len(others))
			}))
			for _, f := range fails {
				fail(f.Kind, "%s", f.Detail)
			}
			return key
		}
		harn.Register(harn.Scenario{Property: "C04", Name: "hist-" + hkind, Run: func(c *harn.Ctx) *harn.Result { return harn.OpSeq(c, spec) }})
	}
}

func nilErr(err error) error {
	if err != nil {
		panic(err)
	}
	return nil
}

func namesOf(alpha []string, h []int) []string {
	out := make([]string, len(h))
	for i, x := range h {
		out[i] = alpha[x]
	}
	return out
}

func (w *World) nameOf(p gen.PID) string {
	for n, q := range w.pids {
		if q == p {
			return n
		}
	}
	return p.String()
}
