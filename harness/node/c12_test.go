//go:build verif

package node

import (
	"bytes"
	"fmt"
	"strings"

	"ergo.services/ergo/gen"
	"verif.local/vsched"
	"verif.local/vsched/harn"
)

// C12 — remote delivery integrity: exactly once, to the addressee, unchanged.

// payload of n bytes with position-dependent content
func mkPayload(n int, seed byte) []byte {
	b := make([]byte, n)
	if seed%2 == 1 {
		// incompressible: a xorshift stream (compressed frames of such payloads are LARGER than the payload)
		x := uint32(seed)*2654435761 + 12345
		for i := range b {
			x ^= x << 13
			x ^= x >> 17
			x ^= x << 5
			b[i] = byte(x >> 11)
		}
		return b
	}
	for i := range b {
		b[i] = byte(i*7) + seed + byte(i>>8)
	}
	return b
}

type delivery struct {
	who  string
	from gen.PID
	data []byte
	kind string
}

// c12world: node B has receivers R (registered name "rname", alias) and Q (the wrong addressee);
// node A has a sender process configured by the scenario.
type c12world struct {
	nw     *NetWorld
	got    []delivery
	rpid   gen.PID
	ralias gen.Alias
	qpid   gen.PID
}

func (c *c12world) receiver(w *World, name string, reg gen.Atom, opts gen.ProcessOptions) gen.PID {
	r := &rec{name: name}
	w.recs[name] = r
	cfg := probeCfg{rec: r,
		onMsg: func(p *probe, from gen.PID, m any) error {
			if b, ok := m.([]byte); ok {
				c.got = append(c.got, delivery{name, from, append([]byte{}, b...), "msg"})
			}
			return nil
		},
		onCall: func(p *probe, from gen.PID, ref gen.Ref, m any) (any, error) {
			if b, ok := m.([]byte); ok {
				c.got = append(c.got, delivery{name, from, append([]byte{}, b...), "call"})
				return append([]byte("re:"), b...), nil
			}
			return "re", nil
		}}
	var pid gen.PID
	w.nsetup++
	w.Setup(fmt.Sprintf("spawn%d-%s", w.nsetup, name), func() {
		var err error
		if reg != "" {
			pid, err = w.n.SpawnRegister(reg, func() gen.ProcessBehavior { return &probe{} }, opts, cfg)
		} else {
			pid, err = w.n.Spawn(func() gen.ProcessBehavior { return &probe{} }, opts, cfg)
		}
		if err != nil {
			panic(err)
		}
	})
	w.pids[name] = pid
	return pid
}

func newC12(nw *NetWorld, ropts gen.ProcessOptions) *c12world {
	c := &c12world{nw: nw}
	c.rpid = c.receiver(nw.b, "R", "rname", ropts)
	c.qpid = c.receiver(nw.b, "Q", "qname", gen.ProcessOptions{})
	nw.b.Do("R", func(p *probe) error { c.ralias, _ = p.CreateAlias(); return nil })
	return c
}

type c12op struct {
	kind    string // send | call | important
	addr    string // pid | name | alias
	payload []byte
	err     error
	reply   any
}

func (c *c12world) target(addr string) any {
	switch addr {
	case "name":
		return gen.ProcessID{Name: "rname", Node: c.nw.b.n.Name()}
	case "alias":
		return c.ralias
	}
	return c.rpid
}

// sender: a probe on A that performs the operations it is sent, in order
func (c *c12world) sender(name string, opts gen.ProcessOptions) gen.PID {
	return c.nw.a.spawnProbe(name, probeCfg{onMsg: func(p *probe, from gen.PID, m any) error {
		ops, ok := m.([]*c12op)
		if !ok {
			return nil
		}
		for _, op := range ops {
			switch op.kind {
			case "send":
				op.err = p.Send(c.target(op.addr), op.payload)
			case "important":
				op.err = p.SendImportant(c.target(op.addr), op.payload)
			case "call":
				op.reply, op.err = p.CallWithTimeout(c.target(op.addr), op.payload, 2)
			}
		}
		return nil
	}}, opts)
}

// oracle: every successful operation was received exactly once by R with the true sender and an
// equal payload; nobody else received anything; a failed operation was not delivered
func (c *c12world) check(senders map[string][]*c12op) {
	ex := c.nw.ex
	for _, d := range c.got {
		if d.who != "R" {
			ex.Fail("delivered-to-wrong-process", "process %s received a %d-byte payload addressed to R", d.who, len(d.data))
		}
	}
	for sname, ops := range senders {
		spid := c.nw.a.pids[sname]
		for i, op := range ops {
			n := 0
			for _, d := range c.got {
				if bytes.Equal(d.data, op.payload) {
					n++
					if d.from != spid {
						ex.Fail("wrong-sender", "%s #%d (%s by %s, %d bytes): receiver saw sender %s, true sender %s", op.kind, i, op.addr, sname, len(op.payload), d.from, spid)
					}
				}
			}
			desc := fmt.Sprintf("%s #%d (%s by %s, %d bytes)", op.kind, i, op.addr, sname, len(op.payload))
			switch {
			case n > 1:
				ex.Fail("delivered-twice", "%s was received %d times", desc, n)
			case op.err == nil && n == 0:
				ex.Fail("payload-lost-or-changed", "%s returned nil but no equal payload arrived (receiver got %d payloads of lengths %v)", desc, len(c.got), lens(c.got))
			case op.err != nil && n > 0 && op.kind != "call":
				ex.Fail("delivered-despite-error", "%s returned %v but the payload arrived", desc, op.err)
			}
			if op.kind == "call" && op.err == nil {
				if rb, ok := op.reply.([]byte); !ok || !bytes.Equal(rb, append([]byte("re:"), op.payload...)) {
					ex.Fail("wrong-reply", "%s: reply does not match the request (%d bytes)", desc, len(rb))
				}
			}
			if op.kind == "important" && op.err == nil && n != 1 {
				ex.Fail("important-ok-not-delivered", "%s reported success, delivered %d times", desc, n)
			}
		}
	}
	if len(c.got) > 0 {
		c.nw.Out("n=%d", len(c.got))
	}
}

func lens(ds []delivery) []int {
	var out []int
	for _, d := range ds {
		out = append(out, len(d.data))
	}
	return out
}

func init() {
	comps := map[string]gen.Compression{
		"none": {},
		"gzip": {Enable: true, Type: gen.CompressionTypeGZIP, Threshold: 1025},
		"zlib": {Enable: true, Type: gen.CompressionTypeZLIB, Threshold: 1025},
		"lzw":  {Enable: true, Type: gen.CompressionTypeLZW, Threshold: 1025},
		// levels and a higher threshold (the threshold is compared with the whole frame, not the payload)
		"gzip-bestspeed":     {Enable: true, Type: gen.CompressionTypeGZIP, Level: gen.CompressionBestSpeed, Threshold: 1025},
		"gzip-bestsize":      {Enable: true, Type: gen.CompressionTypeGZIP, Level: gen.CompressionBestSize, Threshold: 1025},
		"zlib-threshold4096": {Enable: true, Type: gen.CompressionTypeZLIB, Threshold: 4096},
		"lzw-threshold65536": {Enable: true, Type: gen.CompressionTypeLZW, Threshold: 65536},
	}
	sizes := []int{0, 1, 1000, 1024, 1025, 1100, 4095, 4096, 4097, 8191, 8192, 8193, 16384, 32768, 65535, 65536, 65537, 70000}
	// ---- sizes x compression x addressing x kind: one execution each (input enumeration) ----------
	for cname := range comps {
		cname := cname
		harn.Register(harn.Scenario{Property: "C12", Name: "sizes-" + cname, Run: func(ctx *harn.Ctx) *harn.Result {
			r := harn.NewResult("enum")
			for _, addr := range []string{"pid", "name", "alias"} {
				fails, out := vsched.RunOnce(30, netBody(netOpts{}, func(nw *NetWorld) {
					c := newC12(nw, gen.ProcessOptions{})
					c.sender("S", gen.ProcessOptions{Compression: comps[cname]})
					nw.connect()
					if nw.ex.Failed() {
						return
					}
					var ops []*c12op
					for i, n := range sizes {
						kind := []string{"send", "call", "important"}[i%3]
						if ctx.Thorough && n >= 2 { // (payloads of 0 and 1 bytes cannot carry a distinguishing seed)
							for _, k := range []string{"send", "call", "important"} {
								ops = append(ops, &c12op{kind: k, addr: addr, payload: mkPayload(n, byte(len(ops)))})
							}
							continue
						}
						ops = append(ops, &c12op{kind: kind, addr: addr, payload: mkPayload(n, byte(i))})
					}
					if cname == "none" && addr == "pid" {
						// every frame length around the flusher's buffer size (4096), each on an idle link
						for n := 3990; n <= 4100; n++ {
							ops = append(ops, &c12op{kind: "send", addr: addr, payload: mkPayload(n, byte(2*n))})
						}
					}
					// one operation per set-up phase so that frames never overlap: this scenario
					// enumerates inputs, the concurrent ones below enumerate schedules
					for _, op := range ops {
						op := op
						nw.a.nsetup++
						nw.a.Setup(fmt.Sprintf("op%d", nw.a.nsetup), func() { nw.a.n.Send(nw.a.pids["S"], []*c12op{op}) })
					}
					nw.Check = func() {
						for _, op := range ops {
							if op.err != nil {
								nw.ex.Fail("send-failed", "%s of %d bytes (%s, compression %s) returned %v", op.kind, len(op.payload), addr, cname, op.err)
							}
						}
						c.check(map[string][]*c12op{"S": ops})
						r.Executions += len(ops)
					}
				}))
				r.Outcomes[out]++
				for _, f := range fails {
					r.Fail(f.Kind, "%s", f.Detail)
				}
			}
			r.States, r.Transitions, r.Distinct = r.Executions, r.Executions, r.Executions
			r.Samples = append(r.Samples, map[string]any{"compression": cname, "sizes": sizes, "addressing": "pid,name,alias", "kinds": "send,call,important"})
			return r
		}})
	}

	// ---- one message on an idle connection and nothing after it: it arrives (no later traffic pushes it out) ----
	harn.Register(harn.Scenario{Property: "C12", Name: "single-message-idle-link", Run: func(ctx *harn.Ctx) *harn.Result {
		r := harn.NewResult("enum")
		sizes := []int{0, 1, 100, 1000}
		for n := 3990; n <= 4100; n++ { // frame lengths around the flusher's buffer size
			sizes = append(sizes, n)
		}
		sizes = append(sizes, 8100, 8192, 8200, 20000, 70000)
		for _, n := range sizes {
			n := n
			fails, out := vsched.RunOnce(30, netBody(netOpts{}, func(nw *NetWorld) {
				c := newC12(nw, gen.ProcessOptions{})
				c.sender("S", gen.ProcessOptions{})
				nw.connect()
				if nw.ex.Failed() {
					return
				}
				op := &c12op{kind: "send", addr: "pid", payload: mkPayload(n, byte(2*n))}
				nw.ex.Thread("GO", func() { nw.a.n.Send(nw.a.pids["S"], []*c12op{op}) })
				nw.Check = func() { c.check(map[string][]*c12op{"S": {op}}) }
			}))
			r.Executions++
			r.Outcomes[out]++
			for _, f := range fails {
				r.Fail(f.Kind, "payload of %d bytes, alone on an idle link: %s", n, f.Detail)
			}
		}
		r.States, r.Transitions, r.Distinct = r.Executions, r.Executions, r.Executions
		return r
	}})

	// ---- the receiver's max message size: beyond the limit the send fails and nothing arrives ------
	harn.Register(harn.Scenario{Property: "C12", Name: "max-message-size", Run: func(ctx *harn.Ctx) *harn.Result {
		r := harn.NewResult("enum")
		limit := 5000
		for _, cname := range []string{"none", "gzip"} {
			fails, out := vsched.RunOnce(30, netBody(netOpts{maxMessageSize: limit}, func(nw *NetWorld) {
				c := newC12(nw, gen.ProcessOptions{})
				c.sender("S", gen.ProcessOptions{Compression: comps[cname]})
				nw.connect()
				if nw.ex.Failed() {
					return
				}
				var ops []*c12op
				for i, n := range []int{100, 4000, 4900, 4990, 5000, 5010, 5100, 6000, 20000} {
					ops = append(ops, &c12op{kind: []string{"send", "important", "call"}[i%3], addr: "pid", payload: mkPayload(n, byte(i))})
				}
				// every payload size across the limit, byte by byte (the frame adds a few dozen bytes of headers):
				// each send is either refused or delivered, whichever side of the limit its frame falls on
				if cname == "none" {
					for n := limit - 70; n <= limit+4; n++ {
						ops = append(ops, &c12op{kind: []string{"send", "important"}[n%2], addr: "pid", payload: mkPayload(n, byte(2*n))})
					}
				}
				for _, op := range ops {
					op := op
					nw.a.nsetup++
					nw.a.Setup(fmt.Sprintf("op%d", nw.a.nsetup), func() { nw.a.n.Send(nw.a.pids["S"], []*c12op{op}) })
				}
				nw.Check = func() {
					c.check(map[string][]*c12op{"S": ops})
					for _, op := range ops {
						// frame = payload + at most 64 bytes of headers; well beyond the limit it must fail
						// (the limit is a limit on the frame that travels: with compression a larger payload may
						// legitimately pass - the repository's own TestSendRemoteCompress expects exactly that)
						if cname == "none" && len(op.payload) > limit && op.err == nil {
							nw.ex.Fail("limit-not-enforced", "%s of %d bytes succeeded although the peer's max message size is %d", op.kind, len(op.payload), limit)
						}
						if len(op.payload)+64 < limit && op.err != nil {
							nw.ex.Fail("send-failed", "%s of %d bytes (limit %d) returned %v", op.kind, len(op.payload), limit, op.err)
						}
					}
					r.Executions += len(ops)
				}
			}))
			r.Outcomes[out]++
			for _, f := range fails {
				r.Fail(f.Kind, "%s", f.Detail)
			}
		}
		r.States, r.Transitions, r.Distinct = r.Executions, r.Executions, r.Executions
		r.Samples = append(r.Samples, map[string]any{"limit": limit, "payloads": "100..20000"})
		return r
	}})

	// ---- TCP segmentation: every cut of 1-2 back-to-back frames into <=3 reads ---------------------
	for _, nframes := range []int{1, 2} {
		nframes := nframes
		harn.Register(harn.Scenario{Property: "C12", Name: fmt.Sprintf("segmentation-%dframes", nframes), Run: func(ctx *harn.Ctx) *harn.Result {
			r := harn.NewResult("enum")
			fails, out := vsched.RunOnce(600, netBody(netOpts{}, func(nw *NetWorld) {
				c := newC12(nw, gen.ProcessOptions{})
				c.sender("S", gen.ProcessOptions{})
				nw.connect()
				if nw.ex.Failed() {
					return
				}
				link := nw.links[0].cb
				round := 0
				send := func() []*c12op {
					var ops []*c12op
					for k := 0; k < nframes; k++ {
						round++
						pl := append([]byte(fmt.Sprintf("%05d", round)), mkPayload(4+k*5, byte(round))...)
						ops = append(ops, &c12op{kind: "send", addr: []string{"pid", "name"}[k%2], payload: pl})
					}
					nw.a.nsetup++
					nw.a.Setup(fmt.Sprintf("seg%d", nw.a.nsetup), func() { nw.a.n.Send(nw.a.pids["S"], ops) })
					return ops
				}
				// measure the stream length once
				link.Hold = true
				first := send()
				total := link.Pending()
				link.Hold = false
				vsched.ChanEvent()
				nw.b.Setup("flush0", func() {})
				all := [][]*c12op{first}
				step := 1
				if !ctx.Thorough && nframes == 2 {
					step = 2
				}
				for i := 1; i < total; i += step {
					for j := i; j <= total; j += step {
						link.Hold = true
						ops := send()
						if link.Pending() != total {
							nw.ex.Fail("harness", "stream length changed: %d vs %d", link.Pending(), total)
							return
						}
						link.ReadPlan = []int{i, j - i}
						if j == i {
							link.ReadPlan = []int{i}
						}
						link.Hold = false
						vsched.ChanEvent()
						nw.b.nsetup++
						nw.b.Setup(fmt.Sprintf("deliver%d", nw.b.nsetup), func() {})
						all = append(all, ops)
						r.Executions++
						// check this cut at once so that the first failing cut is reported
						okc := 0
						for _, op := range ops {
							for _, d := range c.got {
								if bytes.Equal(d.data, op.payload) {
									okc++
								}
							}
						}
						if okc != len(ops) {
							nw.ex.Fail("segmentation-loss", "%d frame(s), %d stream bytes, reads of %d, %d, rest: %d of %d payloads arrived intact", nframes, total, i, j-i, okc, len(ops))
							return
						}
					}
				}
				nw.Check = func() {
					var flat []*c12op
					for _, ops := range all {
						flat = append(flat, ops...)
					}
					c.check(map[string][]*c12op{"S": flat})
					nw.Out("stream=%d cuts=%d", total, len(all))
				}
			}))
			r.Outcomes[out]++
			for _, f := range fails {
				r.Fail(f.Kind, "%s", f.Detail)
			}
			r.States, r.Transitions, r.Distinct = r.Executions, r.Executions, r.Executions
			r.Samples = append(r.Samples, map[string]any{"frames": nframes, "result": out})
			return r
		}})
	}

	// ---- concurrent senders, pooled links: every schedule within the bound ---------------------------
	for _, pool := range []int{1, 2} {
		pool := pool
		harn.Register(harn.Scenario{Property: "C12", Name: fmt.Sprintf("concurrent-senders-pool%d", pool), Run: func(ctx *harn.Ctx) *harn.Result {
			return harn.Explore(ctx, harn.Sched{QuickBound: 1, ThoroughBound: 2, Preempt: false, Cache: true, HorizonS: 30, Body: netBody(netOpts{}, func(nw *NetWorld) {
				c := newC12(nw, gen.ProcessOptions{})
				c.sender("S1", gen.ProcessOptions{})
				c.sender("S2", gen.ProcessOptions{Compression: gen.Compression{Enable: true, Threshold: 1025}})
				nw.connect()
				for k := 1; k < pool; k++ {
					nw.addLink()
				}
				if nw.ex.Failed() {
					return
				}
				ops1 := []*c12op{{kind: "send", addr: "pid", payload: mkPayload(40, 1)}, {kind: "call", addr: "name", payload: mkPayload(3000, 2)}}
				ops2 := []*c12op{{kind: "important", addr: "alias", payload: mkPayload(2000, 3)}, {kind: "send", addr: "pid", payload: mkPayload(5, 4)}}
				nw.ex.Thread("G1", func() { nw.a.n.Send(nw.a.pids["S1"], ops1) })
				nw.ex.Thread("G2", func() { nw.a.n.Send(nw.a.pids["S2"], ops2) })
				nw.Check = func() {
					for _, op := range append(append([]*c12op{}, ops1...), ops2...) {
						if op.err != nil {
							nw.ex.Fail("send-failed", "%s of %d bytes returned %v", op.kind, len(op.payload), op.err)
						}
					}
					c.check(map[string][]*c12op{"S1": ops1, "S2": ops2})
				}
			})})
		}})
	}

	// ---- important delivery: success iff placed in the remote mailbox, otherwise the remote reason --
	harn.Register(harn.Scenario{Property: "C12", Name: "important-remote-reason", Run: func(ctx *harn.Ctx) *harn.Result {
		return harn.Explore(ctx, harn.Sched{QuickBound: 1, ThoroughBound: 2, Preempt: false, Cache: true, HorizonS: 30, Body: netBody(netOpts{}, func(nw *NetWorld) {
			g := &vsched.Gate{}
			c := newC12(nw, gen.ProcessOptions{})
			// F: bounded mailbox (1), parked => the second important send must report 'mailbox full'
			fr := &rec{name: "F"}
			nw.b.recs["F"] = fr
			nw.b.Setup("spawnF", func() {
				pid, err := nw.b.n.Spawn(func() gen.ProcessBehavior { return &probe{} }, gen.ProcessOptions{MailboxSize: 1}, probeCfg{rec: fr, onMsg: func(p *probe, from gen.PID, m any) error {
					if m == "park" {
						g.Wait()
					}
					return nil
				}})
				if err != nil {
					panic(err)
				}
				nw.b.pids["F"] = pid
			})
			nw.b.Setup("park", func() { nw.b.n.Send(nw.b.pids["F"], "park") })
			fpid := nw.b.pids["F"]
			unknown := gen.PID{Node: nw.b.n.Name(), ID: 99999, Creation: nw.b.n.Creation()}
			res := map[string]error{}
			nw.a.spawnProbe("S", probeCfg{onMsg: func(p *probe, from gen.PID, m any) error {
				if m != "go" {
					return nil
				}
				res["ok"] = p.SendImportant(c.rpid, mkPayload(10, 9))
				res["unknown"] = p.SendImportant(unknown, "x")
				res["full-1"] = p.SendImportant(fpid, "f1")
				res["full-2"] = p.SendImportant(fpid, "f2")
				res["unknown-name"] = p.SendImportant(gen.ProcessID{Name: "nobody", Node: nw.b.n.Name()}, "y")
				return nil
			}}, gen.ProcessOptions{})
			nw.connect()
			if nw.ex.Failed() {
				return
			}
			nw.ex.Thread("GO", func() { nw.a.n.Send(nw.a.pids["S"], "go") })
			// noise: traffic in the other direction reuses pooled frame buffers
			nw.b.spawnProbe("NOISE", probeCfg{onMsg: func(p *probe, from gen.PID, m any) error {
				p.Send(nw.a.pids["S"], "noise-1")
				p.Send(nw.a.pids["S"], "noise-2")
				return nil
			}}, gen.ProcessOptions{})
			nw.ex.ThreadLow("NOISE", func() { nw.b.n.Send(nw.b.pids["NOISE"], "go") })
			nw.Check = func() {
				want := map[string]error{"ok": nil, "unknown": gen.ErrProcessUnknown, "full-1": nil, "full-2": gen.ErrProcessMailboxFull, "unknown-name": gen.ErrProcessUnknown}
				for k, w := range want {
					if got, done := res[k]; !done {
						nw.ex.Fail("important-hangs", "SendImportant (%s) never returned", k)
					} else if got != w {
						kind := "important-wrong-result"
						if w == nil {
							kind = "important-delivered-but-error"
						}
						nw.ex.Fail(kind, "SendImportant (%s) returned %v, the remote outcome was %v", k, got, w)
					}
				}
				var ks []string
				for _, k := range []string{"ok", "unknown", "full-1", "full-2", "unknown-name"} {
					ks = append(ks, fmt.Sprintf("%s=%v", k, res[k]))
				}
				nw.Out("%s", strings.Join(ks, ","))
			}
		})})
	}})
}
