//go:build verif

package node

import (
	rt "time"

	"ergo.services/ergo/lib"
	"verif.local/vsched"
	"verif.local/vsched/harn"
	vtime "verif.local/vsched/vtime"
)

// C12 (and every request with a timeout): the result of an important send or of a request is decided by a pooled
// timer (lib.TakeTimer / lib.ReleaseTimer). A timer handed out by the pool must not carry the tick of its previous
// use - otherwise the next important send reports a timeout although the message was placed in the remote mailbox.
// Every order of {the timer fires, the wait ends because the answer came, the timer is released} is played through
// under the virtual clock.
func init() {
	harn.Register(harn.Scenario{Property: "C12", Name: "pooled-timer-carries-no-stale-tick", Run: func(c *harn.Ctx) *harn.Result {
		r := harn.NewResult("enum")
		for _, order := range []string{"released-before-it-fires", "fires-then-released-unread", "fires-read-then-released", "released-twice-in-a-row"} {
			order := order
			vsched.RunOnce(10, func(ex *vsched.Exec) string {
				r.Executions++
				ex.Thread("T", func() {
					uses := 1
					if order == "released-twice-in-a-row" {
						uses = 2
					}
					for u := 0; u < uses; u++ {
						t := lib.TakeTimer()
						t.Reset(rt.Second)
						switch order {
						case "released-before-it-fires":
							vtime.Sleep(100 * rt.Millisecond)
						case "fires-then-released-unread", "released-twice-in-a-row":
							vtime.Sleep(2 * rt.Second) // the answer came at the very moment the timer fired: the tick is never read
						case "fires-read-then-released":
							vtime.Sleep(2 * rt.Second)
							<-t.C
						}
						lib.ReleaseTimer(t)
					}
					// the next user: a fresh wait of one second must not be over at once
					t2 := lib.TakeTimer()
					t2.Reset(rt.Second)
					select {
					case <-t2.C:
						r.Fail("stale-timer-tick", "a timer taken from the pool after its previous use '%s' delivers a tick at once: the next request or important send would report a timeout without having waited", order)
					default:
					}
					lib.ReleaseTimer(t2)
				})
				ex.Run()
				return order
			})
			r.Outcomes[order]++
		}
		r.States, r.Transitions, r.Distinct = 4, r.Executions, 4
		return r
	}})
}
