//go:build verif

package node

import (
	"fmt"
	"strings"
	rt "time"

	"ergo.services/ergo/gen"
	"verif.local/vsched"
	"verif.local/vsched/harn"
)

// C02 — local delivery: exactly once, no lost wake-up, truthful send result.

type sendLog struct {
	items []sendRec
}
type sendRec struct {
	payload string
	err     error
}

func (s *sendLog) add(payload string, err error) { s.items = append(s.items, sendRec{payload, err}) }

func fbName(m any) string {
	if f, ok := m.(gen.MessageFallback); ok {
		return fmt.Sprintf("fb[%d,%s,%v]", f.PID.ID, f.Tag, f.Message)
	}
	return ""
}

// conserve checks the conservation clauses for receiver name (and optional fallback process F).
func (w *World) conserve(name string, sl *sendLog, busy bool) {
	r := w.recs[name]
	pid := w.pids[name]
	info, ierr := w.n.ProcessInfo(pid)
	alive := ierr == nil
	var fb *rec
	if f, ok := w.recs["F"]; ok {
		fb = f
	}
	all := append(append(handled(r, "M:"), handled(r, "C:")...), handled(r, "E:")...)
	for _, s := range sl.items {
		c := count(all, s.payload)
		fc := 0
		if fb != nil {
			fc = count(handled(fb, "M:"), fmt.Sprintf("fb[%d,tag,%s]", pid.ID, s.payload))
		}
		switch {
		case s.err != nil && c+fc > 0:
			w.ex.Fail("handled-despite-error", "send of %q returned %v but it was handled (receiver %d, fallback %d)", s.payload, s.err, c, fc)
		case s.err == nil && c+fc > 1:
			w.ex.Fail("handled-twice", "send of %q succeeded and was handled %d times by the receiver, %d times by the fallback", s.payload, c, fc)
		case s.err == nil && c+fc == 0 && alive && !busy:
			if info.State == gen.ProcessStateSleep && info.MailboxQueues.Main+info.MailboxQueues.System+info.MailboxQueues.Urgent > 0 {
				w.ex.Fail("lost-wakeup", "send of %q succeeded; receiver sleeps with a non-empty mailbox %+v and nothing can wake it", s.payload, info.MailboxQueues)
			} else {
				w.ex.Fail("lost-message", "send of %q succeeded, receiver alive (state %s, queues %+v) but it was never handled; log=%v", s.payload, info.State, info.MailboxQueues, r.log)
			}
		}
	}
	if alive && !busy && info.State != gen.ProcessStateSleep {
		w.ex.Fail("stuck-state", "receiver is in state %s at quiescence", info.State)
	}
	w.Out("%s=%s alive=%v", name, strings.Join(r.log, ","), alive)
	var res []string
	for _, s := range sl.items {
		res = append(res, fmt.Sprintf("%s:%v", s.payload, s.err))
	}
	w.Out("sends=%s", strings.Join(res, ","))
	if fb != nil {
		w.Out("F=%s", strings.Join(fb.log, ","))
	}
}

type c02opt struct {
	mustLive    bool
	qb, tb      int
	timerBranch bool
	tiers       string
	delay       bool
}

func c02Scenario(name string, o c02opt, build func(w *World, sl *sendLog) (busy bool)) {
	harn.Register(harn.Scenario{Property: "C02", Name: name, Tiers: o.tiers, Run: func(c *harn.Ctx) *harn.Result {
		return harn.Explore(c, harn.Sched{QuickBound: o.qb, ThoroughBound: o.tb, Preempt: !o.delay, Cache: true, TimerBranch: o.timerBranch,
			Body: nodeBody(func(w *World) {
				sl := &sendLog{}
				busy := build(w, sl)
				w.Check = func() {
					w.conserve("R", sl, busy)
					if o.mustLive {
						if r := w.recs["R"]; len(r.term) > 0 || !w.alive("R") {
							w.ex.Fail("spurious-termination", "the receiver terminated (%v) although nothing in this scenario kills it or makes it fail; log=%v", r.term, r.log)
						}
					}
				}
			})})
	}})
}

// fallback-aware message naming for the probe log
func init() {
	prev := msgNameHook
	msgNameHook = func(m any) string {
		if s := fbName(m); s != "" {
			return s
		}
		if prev != nil {
			return prev(m)
		}
		return ""
	}
}

func init() {
	pb := c02opt{qb: 2, tb: 3}
	pl := c02opt{qb: 2, tb: 3, mustLive: true}
	c02Scenario("pid-pid", pl, func(w *World, sl *sendLog) bool {
		pid := w.spawnProbe("R", probeCfg{}, gen.ProcessOptions{})
		w.ex.Thread("S1", func() { sl.add("a", w.n.Send(pid, "a")) })
		w.ex.Thread("S2", func() { sl.add("b", w.n.Send(pid, "b")) })
		return false
	})
	c02Scenario("name-alias", pl, func(w *World, sl *sendLog) bool {
		var al gen.Alias
		r := &rec{name: "R"}
		w.recs["R"] = r
		w.Setup("spawnR", func() {
			pid, err := w.n.SpawnRegister("rname", func() gen.ProcessBehavior { return &probe{} }, gen.ProcessOptions{}, probeCfg{rec: r})
			if err != nil {
				panic(err)
			}
			w.pids["R"] = pid
		})
		w.Do("R", func(p *probe) error {
			a, err := p.CreateAlias()
			if err != nil {
				panic(err)
			}
			al = a
			return nil
		})
		w.ex.Thread("S1", func() { sl.add("a", w.n.Send(gen.Atom("rname"), "a")) })
		w.ex.Thread("S2", func() { sl.add("b", w.n.Send(al, "b")) })
		return false
	})
	c02Scenario("priorities", c02opt{qb: 1, tb: 2}, func(w *World, sl *sendLog) bool {
		pid := w.spawnProbe("R", probeCfg{}, gen.ProcessOptions{})
		w.ex.Thread("S1", func() { sl.add("a", w.n.Send(pid, "a")) })
		w.ex.Thread("S2", func() { sl.add("b", w.n.SendWithPriority(pid, "b", gen.MessagePriorityHigh)) })
		w.ex.Thread("S3", func() { sl.add("c", w.n.SendWithPriority(pid, "c", gen.MessagePriorityMax)) })
		return false
	})
	for _, size := range []int64{1, 2} {
		size := size
		c02Scenario(fmt.Sprintf("bounded%d", size), pl, func(w *World, sl *sendLog) bool {
			pid := w.spawnProbe("R", probeCfg{}, gen.ProcessOptions{MailboxSize: size})
			w.ex.Thread("S1", func() { sl.add("a1", w.n.Send(pid, "a1")); sl.add("a2", w.n.Send(pid, "a2")) })
			w.ex.Thread("S2", func() { sl.add("b1", w.n.Send(pid, "b1")) })
			return false
		})
	}
	// bounded mailbox with a fallback process; R is parked inside a callback so that the mailbox
	// fills, then the gate opens
	c02Scenario("bounded1-fallback", c02opt{qb: 1, tb: 2}, func(w *World, sl *sendLog) bool {
		g := &vsched.Gate{}
		w.Setup("spawnF", func() {
			fr := &rec{name: "F"}
			w.recs["F"] = fr
			pid, err := w.n.SpawnRegister("fb", func() gen.ProcessBehavior { return &probe{} }, gen.ProcessOptions{}, probeCfg{rec: fr})
			if err != nil {
				panic(err)
			}
			w.pids["F"] = pid
		})
		pid := w.spawnProbe("R", probeCfg{onMsg: func(p *probe, from gen.PID, m any) error {
			if m == "park" {
				g.Wait()
			}
			return nil
		}}, gen.ProcessOptions{MailboxSize: 1, Fallback: gen.ProcessFallback{Enable: true, Name: "fb", Tag: "tag"}})
		w.Setup("park", func() { w.n.Send(pid, "park") })
		w.ex.Thread("S1", func() { sl.add("a1", w.n.Send(pid, "a1")); sl.add("a2", w.n.Send(pid, "a2")) })
		w.ex.Thread("S2", func() { sl.add("b1", w.n.Send(pid, "b1")) })
		w.ex.Thread("G", func() { g.Open() })
		return false
	})
	// a fallback that cannot take the message (unknown name, terminated, itself full): the refusal must be reported
	for _, how := range []string{"missing", "dead", "full"} {
		for _, addr := range []string{"pid", "name", "alias"} {
			how, addr := how, addr
			scn := "bounded1-fallback-" + how
			if addr != "pid" {
				scn += "-by-" + addr
			}
			c02Scenario(scn, c02opt{qb: 1, tb: 2}, func(w *World, sl *sendLog) bool {
				g := &vsched.Gate{}
				if how != "missing" {
					w.Setup("spawnF", func() {
						fr := &rec{name: "F"}
						w.recs["F"] = fr
						opts := gen.ProcessOptions{}
						if how == "full" {
							opts.MailboxSize = 1
						}
						pid, err := w.n.SpawnRegister("fb", func() gen.ProcessBehavior { return &probe{} }, opts, probeCfg{rec: fr, onMsg: func(p *probe, from gen.PID, m any) error {
							if m == "park" {
								g.Wait()
							}
							return nil
						}})
						if err != nil {
							panic(err)
						}
						w.pids["F"] = pid
					})
					switch how {
					case "dead":
						w.Setup("killF", func() { w.n.Kill(w.pids["F"]) })
					case "full":
						w.Setup("parkF", func() { w.n.Send(w.pids["F"], "park") })
						w.Setup("fillF", func() { w.n.Send(w.pids["F"], "fill") })
					}
				}
				pid := w.spawnProbe("R", probeCfg{onMsg: func(p *probe, from gen.PID, m any) error {
					if m == "park" {
						g.Wait()
					}
					return nil
				}}, gen.ProcessOptions{MailboxSize: 1, Fallback: gen.ProcessFallback{Enable: true, Name: "fb", Tag: "tag"}})
				var to any = pid
				switch addr {
				case "name":
					w.Do("R", func(p *probe) error { return p.RegisterName("rname") })
					to = gen.Atom("rname")
				case "alias":
					w.Do("R", func(p *probe) error {
						a, err := p.CreateAlias()
						to = a
						return err
					})
				}
				w.Setup("park", func() { w.n.Send(pid, "park") })
				w.ex.Thread("S1", func() { sl.add("a1", w.n.Send(to, "a1")); sl.add("a2", w.n.Send(to, "a2")) })
				w.ex.Thread("S2", func() { sl.add("b1", w.n.Send(to, "b1")) })
				w.ex.ThreadLow("G", func() { g.Open() })
				return false
			})
		}
	}
	// fallback to its own name: the refusal must be reported
	c02Scenario("bounded1-fallback-self", c02opt{qb: 1, tb: 2}, func(w *World, sl *sendLog) bool {
		g := &vsched.Gate{}
		r := &rec{name: "R"}
		w.recs["R"] = r
		w.Setup("spawnR", func() {
			pid, err := w.n.SpawnRegister("rname", func() gen.ProcessBehavior { return &probe{} },
				gen.ProcessOptions{MailboxSize: 1, Fallback: gen.ProcessFallback{Enable: true, Name: "rname", Tag: "tag"}},
				probeCfg{rec: r, onMsg: func(p *probe, from gen.PID, m any) error {
					if m == "park" {
						g.Wait()
					}
					return nil
				}})
			if err != nil {
				panic(err)
			}
			w.pids["R"] = pid
		})
		pid := w.pids["R"]
		w.Setup("park", func() { w.n.Send(pid, "park") })
		w.ex.Thread("S1", func() { sl.add("a1", w.n.Send(pid, "a1")); sl.add("a2", w.n.Send(pid, "a2")) })
		w.ex.Thread("G", func() { g.Open() })
		return false
	})
	// sends racing with the receiver's own termination
	c02Scenario("send-vs-terminating", pb, func(w *World, sl *sendLog) bool {
		pid := w.spawnProbe("R", probeCfg{onMsg: failer}, gen.ProcessOptions{})
		w.ex.Thread("S1", func() { sl.add("normal", w.n.Send(pid, "normal")) })
		w.ex.Thread("S2", func() { sl.add("b", w.n.Send(pid, "b")); sl.add("c", w.n.Send(pid, "c")) })
		return false
	})
	c02Scenario("send-vs-kill", pb, func(w *World, sl *sendLog) bool {
		pid := w.spawnProbe("R", probeCfg{}, gen.ProcessOptions{})
		w.ex.Thread("K", func() { w.n.Kill(pid) })
		w.ex.Thread("S2", func() { sl.add("b", w.n.Send(pid, "b")); sl.add("c", w.n.Send(pid, "c")) })
		return false
	})
	// requests: each is presented exactly once
	c02Scenario("call-call", c02opt{qb: 1, tb: 2}, func(w *World, sl *sendLog) bool {
		pid := w.spawnProbe("R", probeCfg{}, gen.ProcessOptions{})
		caller := func(name, q string) {
			w.spawnProbe(name, probeCfg{onMsg: func(p *probe, from gen.PID, m any) error {
				v, err := p.Call(pid, q)
				if err == nil && v != "re:"+q {
					w.ex.Fail("wrong-reply", "call %q returned %v", q, v)
				}
				sl.add(q, err)
				return nil
			}}, gen.ProcessOptions{})
		}
		caller("C1", "q1")
		caller("C2", "q2")
		w.ex.Thread("S1", func() { w.n.Send(w.pids["C1"], "go") })
		w.ex.Thread("S2", func() { w.n.Send(w.pids["C2"], "go") })
		return false
	})
	// exit signal as a send
	c02Scenario("exit-send", pb, func(w *World, sl *sendLog) bool {
		pid := w.spawnProbe("R", probeCfg{trap: true}, gen.ProcessOptions{})
		w.spawnProbe("Z", probeCfg{onMsg: func(p *probe, from gen.PID, m any) error {
			sl.add("exitpid(X)", p.SendExit(pid, errX))
			return nil
		}}, gen.ProcessOptions{})
		w.ex.Thread("X", func() { w.n.Send(w.pids["Z"], "go") })
		w.ex.Thread("S2", func() { sl.add("b", w.n.Send(pid, "b")) })
		return false
	})
	// self-send during init must be handled without any later traffic
	c02Scenario("init-selfsend", c02opt{qb: 2, tb: 3}, func(w *World, sl *sendLog) bool {
		r := &rec{name: "R"}
		w.recs["R"] = r
		w.ex.Thread("SP", func() {
			pid, err := w.n.Spawn(func() gen.ProcessBehavior { return &probe{} }, gen.ProcessOptions{}, probeCfg{rec: r, onInit: func(p *probe) error {
				sl.add("self", p.Send(p.PID(), "self"))
				return nil
			}})
			if err != nil {
				panic(err)
			}
			w.pids["R"] = pid
		})
		return false
	})
	// the same with the other priority classes (each class has a queue of its own)
	for pname, prio := range map[string]gen.MessagePriority{"high": gen.MessagePriorityHigh, "max": gen.MessagePriorityMax} {
		prio := prio
		c02Scenario("init-selfsend-"+pname, c02opt{qb: 1, tb: 2}, func(w *World, sl *sendLog) bool {
			r := &rec{name: "R"}
			w.recs["R"] = r
			w.ex.Thread("SP", func() {
				pid, err := w.n.Spawn(func() gen.ProcessBehavior { return &probe{} }, gen.ProcessOptions{}, probeCfg{rec: r, onInit: func(p *probe) error {
					sl.add("self", p.SendWithPriority(p.PID(), "self", prio))
					return nil
				}})
				if err != nil {
					panic(err)
				}
				w.pids["R"] = pid
			})
			return false
		})
	}
	c02Scenario("init-selfsend-name", c02opt{qb: 2, tb: 3}, func(w *World, sl *sendLog) bool {
		r := &rec{name: "R"}
		w.recs["R"] = r
		w.ex.Thread("SP", func() {
			pid, err := w.n.SpawnRegister("rname", func() gen.ProcessBehavior { return &probe{} }, gen.ProcessOptions{}, probeCfg{rec: r, onInit: func(p *probe) error {
				sl.add("self", p.Send(p.PID(), "self"))
				return nil
			}})
			if err != nil {
				panic(err)
			}
			w.pids["R"] = pid
		})
		w.ex.Thread("S1", func() { sl.add("a", w.n.Send(gen.Atom("rname"), "a")) })
		return false
	})
	// delayed send vs cancel: the timer firing is a scheduling alternative
	c02Scenario("sendafter-cancel", c02opt{qb: 1, tb: 2, timerBranch: true}, func(w *World, sl *sendLog) bool {
		pid := w.spawnProbe("R", probeCfg{}, gen.ProcessOptions{})
		var cancel gen.CancelFunc
		cancelled := -1
		w.spawnProbe("H", probeCfg{onMsg: func(p *probe, from gen.PID, m any) error {
			switch m {
			case "arm":
				cancel, _ = p.SendAfter(pid, "t", rt.Millisecond)
			case "cancel":
				if cancel != nil {
					cancelled = 0
					if cancel() {
						cancelled = 1
					}
				}
			}
			return nil
		}}, gen.ProcessOptions{})
		w.Setup("arm", func() { w.n.Send(w.pids["H"], "arm") })
		w.ex.Thread("C", func() { w.n.Send(w.pids["H"], "cancel") })
		w.ex.Thread("S2", func() { sl.add("b", w.n.Send(pid, "b")) })
		old := w.Check
		_ = old
		w.ex.Data["post"] = func() {
			c := count(handled(w.recs["R"], "M:"), "t")
			switch {
			case cancelled == 1 && c != 0:
				w.ex.Fail("cancelled-but-sent", "cancel() reported success but the delayed message was handled %d times", c)
			case cancelled != 1 && c != 1:
				w.ex.Fail("delayed-send-count", "cancel()=%d but the delayed message was handled %d times (want exactly once)", cancelled, c)
			}
			w.Out("cancelled=%d", cancelled)
		}
		return false
	})
	// the receiver has answered a request asynchronously (HandleCall returned nothing, the reply was sent by hand)
	// before the sends arrive: every accepted message is still handled once, as what was sent
	c02Scenario("after-async-reply-send-send", pl, func(w *World, sl *sendLog) bool {
		pid := w.spawnProbe("R", probeCfg{onCall: func(p *probe, from gen.PID, ref gen.Ref, m any) (any, error) {
			p.SendResponse(from, ref, "async")
			return nil, nil
		}}, gen.ProcessOptions{})
		w.spawnProbe("C", probeCfg{}, gen.ProcessOptions{})
		w.Do("C", func(p *probe) error { p.CallWithTimeout(pid, "q", 1); return nil })
		w.ex.Thread("S1", func() { sl.add("a", w.n.Send(pid, "a")); sl.add("c", w.n.Send(pid, "c")) })
		w.ex.Thread("S2", func() { sl.add("b", w.n.Send(pid, "b")) })
		return false
	})
	// publications to a subscriber that is just going to sleep: an accepted publication is handled
	c02Scenario("event-publication-vs-sleep", pl, func(w *World, sl *sendLog) bool {
		pid := w.spawnProbe("R", probeCfg{}, gen.ProcessOptions{})
		w.spawnProbe("P", probeCfg{}, gen.ProcessOptions{})
		var token gen.Ref
		w.Do("P", func(p *probe) error {
			var err error
			token, err = p.RegisterEvent("ev", gen.EventOptions{})
			return err
		})
		w.Do("R", func(p *probe) error { _, err := p.LinkEvent(gen.Event{Name: "ev", Node: w.n.Name()}); return err })
		w.ex.Thread("S1", func() { sl.add("a", w.n.Send(pid, "a")) })
		w.ex.Thread("PUB", func() {
			w.n.Send(w.pids["P"], doMsg{func(p *probe) error {
				sl.add("e1", p.SendEvent("ev", token, "e1"))
				sl.add("e2", p.SendEvent("ev", token, "e2"))
				return nil
			}})
		})
		return false
	})
	// meta process mailbox: two senders, conservation
	c02Scenario("meta-send-send", pb, func(w *World, sl *sendLog) bool {
		id, _ := w.spawnMeta("M", gen.MetaOptions{})
		w.pids["R"] = w.pids["PM"]
		w.recs["R"] = w.recs["M"]
		w.ex.Thread("S1", func() { sl.add("a", w.n.Send(id, "a")) })
		w.ex.Thread("S2", func() {
			sl.add("b", w.n.Send(id, "b"))
			sl.add("c", w.n.SendWithPriority(id, "c", gen.MessagePriorityHigh))
		})
		return false
	})
}
