//go:build verif

package node

import (
	"fmt"
	"sort"
	"strings"

	"ergo.services/ergo/act"
	"ergo.services/ergo/gen"
	"verif.local/vsched"
	"verif.local/vsched/harn"
)

// C19 — pool dispatch: each request to exactly one live worker.

type poolCfg struct {
	size, mbox int64
	w          *World
	gates      map[int]*vsched.Gate // worker ordinal -> gate it waits on when it handles "park"
	failInit   int                  // worker ordinal whose Init fails (0 = none)
	onPoolMsg  func(p *poolB, from gen.PID, m any) error
}

type poolB struct {
	act.Pool
	cfg  poolCfg
	nw   int
	from map[string]gen.PID // payload -> sender seen by the worker
	by   map[string][]string
}

func (p *poolB) Init(args ...any) (act.PoolOptions, error) {
	p.cfg = args[0].(poolCfg)
	p.from = map[string]gen.PID{}
	p.by = map[string][]string{}
	w := p.cfg.w
	factory := func() gen.ProcessBehavior {
		p.nw++
		k := p.nw
		name := fmt.Sprintf("W%d", k)
		r := &rec{name: name}
		w.recs[name] = r
		return &probe{cfg: probeCfg{rec: r,
			onInit: func(q *probe) error {
				w.pids[name] = q.PID()
				if k == p.cfg.failInit {
					return errE
				}
				return nil
			},
			onMsg: func(q *probe, from gen.PID, m any) error {
				pl := fmt.Sprint(m)
				if g := p.cfg.gates[k]; g != nil && pl == "park" {
					g.Wait()
					return nil
				}
				if pl == "crash" {
					return errE
				}
				p.from[pl] = from
				p.by[pl] = append(p.by[pl], name)
				return nil
			},
			onCall: func(q *probe, from gen.PID, ref gen.Ref, m any) (any, error) {
				pl := fmt.Sprint(m)
				p.from[pl] = from
				p.by[pl] = append(p.by[pl], name)
				if g := p.cfg.gates[k]; g != nil && pl == "park" {
					g.Wait() // a slow worker: the caller gives up first
				}
				return "re:" + pl, nil
			}}}
	}
	return act.PoolOptions{PoolSize: p.cfg.size, WorkerMailboxSize: p.cfg.mbox, WorkerFactory: factory}, nil
}

func (p *poolB) HandleMessage(from gen.PID, m any) error {
	if p.cfg.onPoolMsg != nil {
		return p.cfg.onPoolMsg(p, from, m)
	}
	return nil
}

func (w *World) spawnPool(cfg poolCfg) (*poolB, gen.PID, error) {
	cfg.w = w
	pb := &poolB{}
	var pid gen.PID
	var err error
	w.Setup("spawn-pool", func() {
		pid, err = w.n.Spawn(func() gen.ProcessBehavior { return pb }, gen.ProcessOptions{}, cfg)
	})
	w.pids["POOL"] = pid
	return pb, pid, err
}

func (w *World) liveWorkers() []string {
	var out []string
	for name, pid := range w.pids {
		if strings.HasPrefix(name, "W") {
			if _, err := w.n.ProcessInfo(pid); err == nil {
				out = append(out, name)
			}
		}
	}
	sort.Strings(out)
	return out
}

type c19sent struct {
	payload string
	from    string // probe name of the sender
	err     error
	reply   any
	call    bool
}

// c19check: exactly-once (or at-most-once where losses are allowed), original sender, own reply
func c19check(w *World, pb *poolB, sent []c19sent, lossOK bool, wantLive int) {
	for _, s := range sent {
		n := len(pb.by[s.payload])
		switch {
		case s.err != nil && !s.call && n > 0:
			w.ex.Fail("handled-despite-error", "send of %q to the pool returned %v but worker(s) %v handled it", s.payload, s.err, pb.by[s.payload])
		case n > 1:
			w.ex.Fail("dispatched-twice", "%q was handled by %v", s.payload, pb.by[s.payload])
		case s.err == nil && n == 0 && !lossOK:
			w.ex.Fail("message-lost", "%q was accepted by the pool but no worker handled it (live workers %v)", s.payload, w.liveWorkers())
		}
		if n >= 1 && pb.from[s.payload] != w.pids[s.from] {
			w.ex.Fail("sender-changed", "%q: worker saw sender %s, original sender %s (%s)", s.payload, pb.from[s.payload], w.pids[s.from], s.from)
		}
		if s.call && s.err == nil && fmt.Sprint(s.reply) != "re:"+s.payload {
			w.ex.Fail("wrong-reply", "call %q through the pool returned %v", s.payload, s.reply)
		}
		if s.call && s.err != nil && n == 1 && !lossOK {
			w.ex.Fail("reply-lost", "call %q was handled by %v but the caller got %v", s.payload, pb.by[s.payload], s.err)
		}
	}
	// ring membership: with everything idle, 2*n further messages must reach every live worker
	if wantLive >= 0 {
		k := 2 * len(w.liveWorkers())
		for i := 0; i < k; i++ {
			i := i
			w.nsetup++
			w.Setup(fmt.Sprintf("ring%d", w.nsetup), func() { w.n.Send(w.pids["POOL"], fmt.Sprintf("z%d", i)) })
		}
		got := map[string]bool{}
		for i := 0; i < k; i++ {
			for _, n := range pb.by[fmt.Sprintf("z%d", i)] {
				got[n] = true
			}
			if len(pb.by[fmt.Sprintf("z%d", i)]) != 1 {
				w.ex.Fail("idle-dispatch", "idle pool: message z%d was handled by %v", i, pb.by[fmt.Sprintf("z%d", i)])
			}
		}
		for _, n := range w.liveWorkers() {
			if !got[n] {
				w.ex.Fail("ring-lost-worker", "live worker %s received none of %d round-robin messages: it has dropped out of the ring (handlers %v)", n, k, got)
			}
		}
	}
	live := w.liveWorkers()
	if wantLive >= 0 && len(live) != wantLive {
		w.ex.Fail("ring-size", "%d live workers %v, want %d", len(live), live, wantLive)
	}
	var ks []string
	for k, v := range pb.by {
		ks = append(ks, k+"@"+strings.Join(v, "+"))
	}
	sort.Strings(ks)
	w.Out("handled=%v live=%v", ks, live)
}

// client spawns a probe that sends/calls the payloads to the pool when told "go"
func c19client(w *World, name string, pool gen.PID, sent *[]c19sent, call bool, payloads ...string) {
	w.spawnProbe(name, probeCfg{onMsg: func(p *probe, from gen.PID, m any) error {
		if m != "go" {
			return nil
		}
		for _, pl := range payloads {
			if call {
				v, err := p.CallWithTimeout(pool, pl, 1)
				*sent = append(*sent, c19sent{pl, name, err, v, true})
			} else {
				*sent = append(*sent, c19sent{pl, name, p.Send(pool, pl), nil, false})
			}
		}
		return nil
	}}, gen.ProcessOptions{})
}

func c19Scenario(name string, qb, tb int, build func(w *World)) {
	harn.Register(harn.Scenario{Property: "C19", Name: name, Run: func(c *harn.Ctx) *harn.Result {
		return harn.Explore(c, harn.Sched{QuickBound: qb, ThoroughBound: tb, Preempt: false, Cache: true, Body: nodeBody(build)})
	}})
}

func init() {
	for _, size := range []int64{1, 2, 3} {
		size := size
		c19Scenario(fmt.Sprintf("size%d-two-clients", size), 1, 2, func(w *World) {
			pb, pool, err := w.spawnPool(poolCfg{size: size})
			if err != nil {
				panic(err)
			}
			var sent []c19sent
			c19client(w, "C1", pool, &sent, false, "m1", "m2", "m3")
			c19client(w, "C2", pool, &sent, false, "n1", "n2")
			w.ex.Thread("G1", func() { w.n.Send(w.pids["C1"], "go") })
			w.ex.Thread("G2", func() { w.n.Send(w.pids["C2"], "go") })
			w.Check = func() { c19check(w, pb, sent, false, int(size)) }
		})
	}
	// a client whose earlier prioritised requests and sends (successful or failed) are over: what it sends to the pool
	// afterwards is ordinary traffic again and goes to a worker, not to the pool process itself
	for _, pre := range []string{"failed-call-high", "failed-call-max", "ok-call-high", "failed-send-high", "ok-send-max"} {
		pre := pre
		c19Scenario("size2-client-after-"+pre, 1, 2, func(w *World) {
			pb, pool, _ := w.spawnPool(poolCfg{size: 2})
			other := w.spawnProbe("X", probeCfg{onCall: func(p *probe, from gen.PID, ref gen.Ref, m any) (any, error) { return "ok", nil }}, gen.ProcessOptions{})
			gone := gen.PID{Node: w.n.Name(), ID: 999999, Creation: w.n.Creation()}
			var sent []c19sent
			w.spawnProbe("C1", probeCfg{onMsg: func(p *probe, from gen.PID, m any) error {
				if m != "go" {
					return nil
				}
				switch pre {
				case "failed-call-high":
					p.CallWithPriority(gone, "x", gen.MessagePriorityHigh)
				case "failed-call-max":
					p.CallWithPriority(gone, "x", gen.MessagePriorityMax)
				case "ok-call-high":
					p.CallWithPriority(other, "x", gen.MessagePriorityHigh)
				case "failed-send-high":
					p.SendWithPriority(gone, "x", gen.MessagePriorityHigh)
				case "ok-send-max":
					p.SendWithPriority(other, "x", gen.MessagePriorityMax)
				}
				sent = append(sent, c19sent{"m1", "C1", p.Send(pool, "m1"), nil, false})
				v, err := p.CallWithTimeout(pool, "q1", 1)
				sent = append(sent, c19sent{"q1", "C1", err, v, true})
				sent = append(sent, c19sent{"m2", "C1", p.Send(pool, "m2"), nil, false})
				return nil
			}}, gen.ProcessOptions{})
			w.ex.Thread("G1", func() { w.n.Send(w.pids["C1"], "go") })
			w.Check = func() { c19check(w, pb, sent, false, 2) }
		})
	}
	// a slow worker answers after the caller gave up: the late reply is dropped and the caller's following requests
	// through the pool are answered with the replies made for them
	for _, size := range []int64{1, 2} {
		size := size
		c19Scenario(fmt.Sprintf("size%d-late-reply-then-next-requests", size), 1, 2, func(w *World) {
			g := &vsched.Gate{}
			pb, pool, _ := w.spawnPool(poolCfg{size: size, gates: map[int]*vsched.Gate{1: g}})
			var sent []c19sent
			var first error
			w.spawnProbe("C1", probeCfg{onMsg: func(p *probe, from gen.PID, m any) error {
				if m != "go" {
					return nil
				}
				_, first = p.CallWithTimeout(pool, "park", 1)
				g.Open()
				for _, q := range []string{"q2", "q3", "q4"} {
					v, err := p.CallWithTimeout(pool, q, 1)
					sent = append(sent, c19sent{q, "C1", err, v, true})
				}
				return nil
			}}, gen.ProcessOptions{})
			w.ex.Thread("G1", func() { w.n.Send(w.pids["C1"], "go") })
			w.Check = func() {
				if first != gen.ErrTimeout {
					w.ex.Fail("harness-expectation", "the request to the parked worker returned %v, expected a timeout", first)
				}
				c19check(w, pb, sent, false, int(size))
			}
		})
	}
	c19Scenario("size2-calls", 1, 2, func(w *World) {
		pb, pool, _ := w.spawnPool(poolCfg{size: 2})
		var sent []c19sent
		c19client(w, "C1", pool, &sent, true, "q1", "q2")
		c19client(w, "C2", pool, &sent, true, "p1")
		w.ex.Thread("G1", func() { w.n.Send(w.pids["C1"], "go") })
		w.ex.Thread("G2", func() { w.n.Send(w.pids["C2"], "go") })
		w.Check = func() { c19check(w, pb, sent, false, 2) }
	})
	// bounded worker mailboxes, first worker parked: full workers are skipped, a message is dropped
	// only when every worker is full
	for _, mbox := range []int64{1, 2} {
		mbox := mbox
		c19Scenario(fmt.Sprintf("size2-mbox%d-slow-worker", mbox), 1, 2, func(w *World) {
			g := &vsched.Gate{}
			pb, pool, _ := w.spawnPool(poolCfg{size: 2, mbox: mbox, gates: map[int]*vsched.Gate{1: g}})
			// park worker 1 (first dispatch goes to it)
			w.Setup("park", func() { w.n.Send(pool, "park") })
			var sent []c19sent
			c19client(w, "C1", pool, &sent, false, "m1", "m2", "m3", "m4", "m5")
			var insp map[string]string
			w.spawnProbe("I", probeCfg{onMsg: func(p *probe, from gen.PID, m any) error {
				insp, _ = p.Inspect(pool)
				return nil
			}}, gen.ProcessOptions{})
			w.ex.Thread("G1", func() { w.n.Send(w.pids["C1"], "go") })
			w.ex.ThreadLow("G", func() { g.Open() })
			w.Check = func() {
				defer c19check(w, pb, sent, true, 2)
				w.Setup("inspect", func() { w.n.Send(w.pids["I"], "go") })
				handled := 0
				for _, s := range sent {
					handled += len(pb.by[s.payload])
				}
				unh := insp["messages_unhandled"]
				if fmt.Sprint(len(sent)-handled) != unh {
					w.ex.Fail("drop-accounting", "%d sent, %d handled by workers, pool reports %s dropped", len(sent), handled, unh)
				}
				w.Out("dropped=%s", unh)
			}
		})
	}
	// a worker found dead at dispatch time is replaced and gets the message
	c19Scenario("size2-dead-worker-replaced", 1, 2, func(w *World) {
		pb, pool, _ := w.spawnPool(poolCfg{size: 2})
		w.Setup("kill-w1", func() { w.n.Kill(w.pids["W1"]) })
		var sent []c19sent
		c19client(w, "C1", pool, &sent, false, "m1", "m2")
		c19client(w, "C2", pool, &sent, true, "q1")
		w.ex.Thread("G1", func() { w.n.Send(w.pids["C1"], "go") })
		w.ex.Thread("G2", func() { w.n.Send(w.pids["C2"], "go") })
		w.Check = func() { c19check(w, pb, sent, false, 2) }
	})
	// a worker crashes (its own handler error) while traffic flows: at most once, never twice
	c19Scenario("size2-worker-crash-race", 1, 2, func(w *World) {
		pb, pool, _ := w.spawnPool(poolCfg{size: 2})
		var sent []c19sent
		c19client(w, "C1", pool, &sent, false, "m1", "m2", "m3")
		w.ex.Thread("G1", func() { w.n.Send(w.pids["C1"], "go") })
		w.ex.Thread("K", func() { w.n.Kill(w.pids["W1"]) })
		w.Check = func() { c19check(w, pb, sent, true, -1) }
	})
	// a worker killed while it is busy in a callback is dead for the dispatcher: it is replaced on the spot
	for _, size := range []int64{1, 2} {
		size := size
		c19Scenario(fmt.Sprintf("size%d-busy-worker-killed", size), 1, 2, func(w *World) {
			g := &vsched.Gate{}
			pb, pool, _ := w.spawnPool(poolCfg{size: size, gates: map[int]*vsched.Gate{1: g}})
			w.Setup("park", func() { w.n.Send(pool, "park") })
			w.Setup("kill-busy-w1", func() { w.n.Kill(w.pids["W1"]) })
			var sent []c19sent
			c19client(w, "C1", pool, &sent, false, "m1", "m2", "m3")
			w.ex.Thread("G1", func() { w.n.Send(w.pids["C1"], "go") })
			w.ex.ThreadLow("G", func() { g.Open() })
			w.Check = func() {
				g.Open()
				c19check(w, pb, sent, false, int(size))
			}
		})
	}
	// a grown pool: every worker of the ring is tried before a message is dropped. Sequential histories
	// over pool size x added workers x which workers are stuck in a callback x mailbox size.
	harn.Register(harn.Scenario{Property: "C19", Name: "grown-pool-full-workers", Run: func(c *harn.Ctx) *harn.Result {
		r := harn.NewResult("enum")
		for _, size := range []int64{1, 2, 3} {
			for _, add := range []int{0, 1, 2} {
				total := int(size) + add
				for stuck := 0; stuck < 1<<total-1; stuck++ { // at least one worker is free
					for _, mbox := range []int64{1, 2} {
						size, add, stuck, mbox := size, add, stuck, mbox
						r.Executions++
						fails, out := vsched.RunOnce(20, nodeBody(func(w *World) {
							gates := map[int]*vsched.Gate{}
							for k := 0; k < total; k++ {
								if stuck&(1<<k) != 0 {
									gates[k+1] = &vsched.Gate{}
								}
							}
							var cmdErr error
							pb, pool, _ := w.spawnPool(poolCfg{size: size, mbox: mbox, gates: gates, onPoolMsg: func(p *poolB, from gen.PID, m any) error {
								if m == "add" {
									_, cmdErr = p.AddWorkers(add)
								}
								return nil
							}})
							if add > 0 {
								w.Setup("add", func() { w.n.SendWithPriority(pool, "add", gen.MessagePriorityHigh) })
								if cmdErr != nil {
									w.ex.Fail("resize-result", "AddWorkers(%d): %v", add, cmdErr)
								}
							}
							// one "park" per worker, in ring order: the stuck ones stay in their callback
							for k := 0; k < total; k++ {
								w.nsetup++
								w.Setup(fmt.Sprintf("park%d", w.nsetup), func() { w.n.Send(pool, "park") })
							}
							var sent []c19sent
							w.spawnProbe("C1", probeCfg{}, gen.ProcessOptions{})
							for i := 0; i < 3*total+2; i++ {
								pl := fmt.Sprintf("f%d", i)
								w.Do("C1", func(p *probe) error {
									sent = append(sent, c19sent{pl, "C1", p.Send(pool, pl), nil, false})
									return nil
								})
							}
							var insp map[string]string
							w.spawnProbe("I", probeCfg{onMsg: func(p *probe, from gen.PID, m any) error {
								insp, _ = p.Inspect(pool)
								return nil
							}}, gen.ProcessOptions{})
							w.Setup("inspect", func() { w.n.Send(w.pids["I"], "go") })
							w.Check = func() {
								for _, g := range gates {
									g.Open()
								}
								w.Setup("drain", func() {})
								// a worker stuck in a callback can take its mailbox size and no more: it must have been skipped after that
								for k := range gates {
									wn := fmt.Sprintf("W%d", k)
									n := 0
									for _, sx := range sent {
										for _, by := range pb.by[sx.payload] {
											if by == wn {
												n++
											}
										}
									}
									if int64(n) > mbox {
										w.ex.Fail("full-worker-not-skipped", "pool of %d+%d workers, mailbox size %d: worker %s, stuck in a callback for the whole run, was given %d messages", size, add, mbox, wn, n)
									}
								}
								if insp["messages_unhandled"] != "0" {
									w.ex.Fail("dropped-with-free-worker", "pool of %d+%d workers, stuck mask %b, mailbox %d: the pool dropped %s message(s) although a worker is idle with an empty mailbox", size, add, stuck, mbox, insp["messages_unhandled"])
								}
								c19check(w, pb, sent, false, -1)
							}
						}))
						for _, f := range fails {
							r.Fail(f.Kind, "size %d + %d added, stuck mask %b, mailbox %d: %s", size, add, stuck, mbox, f.Detail)
						}
						r.Outcomes[out]++
					}
				}
			}
		}
		r.States, r.Transitions, r.Distinct = r.Executions, r.Executions, len(r.Outcomes)
		return r
	}})
	// RemoveWorkers(1) when the worker it takes from the ring has died meanwhile: the pool shrinks by that one slot,
	// nobody else is stopped, and traffic afterwards is served by the remaining workers
	for _, size := range []int64{2, 3} {
		size := size
		c19Scenario(fmt.Sprintf("size%d-remove-worker-that-is-dead", size), 1, 2, func(w *World) {
			var cmdErr error
			var n int64
			pb, pool, _ := w.spawnPool(poolCfg{size: size, onPoolMsg: func(p *poolB, from gen.PID, m any) error {
				if m == "remove" {
					n, cmdErr = p.RemoveWorkers(1)
				}
				return nil
			}})
			w.Setup("kill-w1", func() { w.n.Kill(w.pids["W1"]) })
			w.Setup("remove", func() { w.n.SendWithPriority(pool, "remove", gen.MessagePriorityHigh) })
			var sent []c19sent
			c19client(w, "C1", pool, &sent, false, "m1", "m2", "m3")
			c19client(w, "C2", pool, &sent, true, "q1")
			w.ex.Thread("G1", func() { w.n.Send(w.pids["C1"], "go") })
			w.ex.Thread("G2", func() { w.n.Send(w.pids["C2"], "go") })
			w.Check = func() {
				if cmdErr != nil || n != size-1 {
					w.ex.Fail("resize-result", "RemoveWorkers(1) on a pool of %d (whose first worker had died) returned (%d, %v), want (%d, nil)", size, n, cmdErr, size-1)
				}
				c19check(w, pb, sent, false, int(size-1))
			}
		})
	}
	// AddWorkers / RemoveWorkers issued by the pool itself (high-priority command) during traffic
	for _, cmd := range []string{"add", "remove"} {
		cmd := cmd
		c19Scenario("size2-"+cmd+"-workers", 1, 2, func(w *World) {
			var cmdErr error
			var n int64
			pb, pool, _ := w.spawnPool(poolCfg{size: 2, onPoolMsg: func(p *poolB, from gen.PID, m any) error {
				if m == "add" {
					n, cmdErr = p.AddWorkers(1)
				} else if m == "remove" {
					n, cmdErr = p.RemoveWorkers(1)
				}
				return nil
			}})
			var sent []c19sent
			c19client(w, "C1", pool, &sent, false, "m1", "m2", "m3")
			w.ex.Thread("G1", func() { w.n.Send(w.pids["C1"], "go") })
			w.ex.Thread("CMD", func() { w.n.SendWithPriority(pool, cmd, gen.MessagePriorityHigh) })
			w.Check = func() {
				want := 3
				if cmd == "remove" {
					want = 1
				}
				if cmdErr != nil || int(n) != want {
					w.ex.Fail("resize-result", "%sWorkers returned (%d, %v), want (%d, nil)", cmd, n, cmdErr, want)
				}
				c19check(w, pb, sent, cmd == "remove", want)
			}
		})
	}
}
