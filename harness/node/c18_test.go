//go:build verif

package node

import (
	"fmt"
	"strings"

	"ergo.services/ergo/gen"
	"verif.local/vsched"
	"verif.local/vsched/harn"
)

// C18 — events: every subscriber sees every publication once, in order.

type evWorld struct {
	w      *World
	ev     gen.Event
	token  gen.Ref
	notifs []string            // EventStart/EventStop seen by the producer
	got    map[string][]string // consumer -> publications handled (HandleEvent)
	ends   map[string][]string // consumer -> exit/down notifications
}

func newEvWorld(w *World) *evWorld {
	e := &evWorld{w: w, ev: gen.Event{Name: "ev", Node: w.n.Name()}, got: map[string][]string{}, ends: map[string][]string{}}
	return e
}

func (e *evWorld) producer(name string) {
	e.w.spawnProbe(name, probeCfg{onMsg: func(p *probe, from gen.PID, m any) error {
		switch m.(type) {
		case gen.MessageEventStart:
			e.notifs = append(e.notifs, "start")
		case gen.MessageEventStop:
			e.notifs = append(e.notifs, "stop")
		}
		return nil
	}}, gen.ProcessOptions{})
}

func (e *evWorld) consumer(name string) {
	r := &rec{name: name}
	e.w.recs[name] = r
	e.w.nsetup++
	e.w.Setup(fmt.Sprintf("spawn%d-%s", e.w.nsetup, name), func() {
		pid, err := e.w.n.Spawn(func() gen.ProcessBehavior { return &evProbe{e: e, name: name} }, gen.ProcessOptions{}, probeCfg{rec: r, trap: true, onMsg: func(p *probe, from gen.PID, m any) error {
			if s := notifOf(m); s != "" {
				e.ends[name] = append(e.ends[name], s)
			}
			return nil
		}})
		if err != nil {
			panic(err)
		}
		e.w.pids[name] = pid
	})
}

type evProbe struct {
	probe
	e    *evWorld
	name string
}

func (p *evProbe) HandleEvent(m gen.MessageEvent) error {
	p.e.got[p.name] = append(p.e.got[p.name], fmt.Sprint(m.Message))
	return nil
}

func msgsOf(ms []gen.MessageEvent) []string {
	var out []string
	for _, m := range ms {
		out = append(out, fmt.Sprint(m.Message))
	}
	return out
}

func lastN(xs []string, n int) []string {
	if n <= 0 {
		return nil
	}
	if len(xs) > n {
		xs = xs[len(xs)-n:]
	}
	return append([]string{}, xs...)
}

func init() {
	// ---- histories ---------------------------------------------------------------------------------
	for _, cfg := range []struct {
		buffer int
		notify bool
	}{{0, false}, {1, true}, {2, true}} {
		cfg := cfg
		alphabet := []string{"P.publish", "X.publish-no-token", "C1.link", "C1.unlink", "C2.monitor", "C2.demonitor", "P.unregister", "P.register", "P.kill", "C1.normal", "X.register-taken", "X.exit"}
		spec := harn.OpSeqSpec{Alphabet: alphabet, DepthQuick: 5, DepthThorough: 7, NoDedupQuick: 3, NoDedupThorough: 4}
		spec.Run = func(hist []int, fail func(kind, format string, a ...any)) string {
			key := ""
			fails, _ := vsched.RunOnce(10, nodeBody(func(w *World) {
				e := newEvWorld(w)
				e.producer("P")
				e.producer("X")
				e.consumer("C1")
				e.consumer("C2")
				register := func() error {
					var err error
					w.Do("P", func(p *probe) error {
						e.token, err = p.RegisterEvent("ev", gen.EventOptions{Buffer: cfg.buffer, Notify: cfg.notify})
						return nil
					})
					return err
				}
				if err := register(); err != nil {
					panic(err)
				}
				// model
				registered, aliveP, aliveC1 := true, true, true
				aliveX := true
				subs := map[string]bool{} // C1 (link), C2 (monitor)
				var published []string
				expGot := map[string][]string{}
				expEnds := map[string][]string{}
				var expNotifs []string
				seq := 0
				subCount := func() int {
					n := 0
					for _, v := range subs {
						if v {
							n++
						}
					}
					return n
				}
				eventGone := func(reason string) {
					for _, c := range []string{"C1", "C2"} {
						if subs[c] && (c != "C1" || aliveC1) {
							pre := "exit"
							if c == "C2" {
								pre = "down"
							}
							expEnds[c] = append(expEnds[c], fmt.Sprintf("%s:event:%s:%s", pre, gen.Atom("ev"), reason))
						}
						subs[c] = false
					}
					registered = false
					published = nil
				}
				for step, opi := range hist {
					op := alphabet[opi]
					here := namesOf(alphabet, hist[:step+1])
					who, what, _ := strings.Cut(op, ".")
					switch {
					case what == "publish":
						if !aliveP {
							return
						}
						seq++
						pl := fmt.Sprintf("e%d", seq)
						var err error
						w.Do("P", func(p *probe) error { err = p.SendEvent("ev", e.token, pl); return nil })
						if registered {
							if err != nil {
								fail("publish-result", "after %v: the token holder's SendEvent returned %v", here, err)
								return
							}
							published = append(published, pl)
							for _, c := range []string{"C1", "C2"} {
								if subs[c] && (c != "C1" || aliveC1) {
									expGot[c] = append(expGot[c], pl)
								}
							}
						} else if err == nil {
							fail("publish-result", "after %v: SendEvent on an unregistered event returned nil", here)
							return
						}
					case what == "register-taken":
						// a stranger tries to register the event the producer owns: refused, and without any effect,
						// not even when the stranger terminates later
						if !aliveX || !registered {
							return
						}
						var err error
						w.Do("X", func(p *probe) error { _, err = p.RegisterEvent("ev", gen.EventOptions{}); return nil })
						if err == nil {
							fail("register-result", "after %v: a second process registered the event that is owned by the producer", here)
							return
						}
					case what == "exit":
						if !aliveX {
							return
						}
						w.nsetup++
						w.Setup(fmt.Sprintf("xend%d", w.nsetup), func() { w.n.Send(w.pids["X"], doMsg{func(p *probe) error { return gen.TerminateReasonNormal }}) })
						aliveX = false
					case what == "publish-no-token":
						if !aliveX {
							return
						}
						var err1, err2 error
						w.Do("X", func(p *probe) error {
							err1 = p.SendEvent("ev", gen.Ref{}, "forged-zero")
							err2 = p.SendEvent("ev", w.n.MakeRef(), "forged-ref")
							return nil
						})
						if err1 == nil || err2 == nil {
							fail("publish-without-token", "after %v: SendEvent without the registration token returned %v / %v", here, err1, err2)
							return
						}
					case what == "link" || what == "monitor":
						if who == "C1" && !aliveC1 {
							return
						}
						var err error
						var last []gen.MessageEvent
						w.Do(who, func(p *probe) error {
							if what == "link" {
								last, err = p.LinkEvent(e.ev)
							} else {
								last, err = p.MonitorEvent(e.ev)
							}
							return nil
						})
						wantOK := registered && !subs[who]
						if (err == nil) != wantOK {
							fail("subscribe-result", "after %v: %s returned %v (event registered=%v, already subscribed=%v)", here, op, err, registered, subs[who])
							return
						}
						if err == nil {
							want := lastN(published, cfg.buffer)
							if fmt.Sprint(msgsOf(last)) != fmt.Sprint(want) {
								fail("buffer-mismatch", "after %v: %s returned the buffered messages %v, the last %d publications are %v", here, op, msgsOf(last), cfg.buffer, want)
								return
							}
							if cfg.notify && subCount() == 0 {
								expNotifs = append(expNotifs, "start")
							}
							subs[who] = true
						}
					case what == "unlink" || what == "demonitor":
						if who == "C1" && !aliveC1 {
							return
						}
						var err error
						w.Do(who, func(p *probe) error {
							if what == "unlink" {
								err = p.UnlinkEvent(e.ev)
							} else {
								err = p.DemonitorEvent(e.ev)
							}
							return nil
						})
						if subs[who] && registered {
							if err != nil {
								fail("unsubscribe-result", "after %v: %s returned %v", here, op, err)
								return
							}
							subs[who] = false
							if cfg.notify && subCount() == 0 {
								expNotifs = append(expNotifs, "stop")
							}
						}
					case what == "unregister":
						if !aliveP || !registered {
							return
						}
						var err error
						w.Do("P", func(p *probe) error { err = p.UnregisterEvent("ev"); return nil })
						if err != nil {
							fail("unregister-result", "after %v: UnregisterEvent returned %v", here, err)
							return
						}
						eventGone("unregistered")
					case what == "register":
						if !aliveP || registered {
							return
						}
						if err := register(); err != nil {
							fail("register-result", "after %v: RegisterEvent returned %v", here, err)
							return
						}
						registered = true
					case what == "kill":
						if !aliveP {
							return
						}
						w.nsetup++
						w.Setup(fmt.Sprintf("kill%d", w.nsetup), func() { w.n.Kill(w.pids["P"]) })
						aliveP = false
						if registered {
							eventGone("kill")
						}
					case what == "normal":
						if !aliveC1 {
							return
						}
						w.nsetup++
						w.Setup(fmt.Sprintf("end%d", w.nsetup), func() { w.n.Send(w.pids["C1"], doMsg{func(p *probe) error { return gen.TerminateReasonNormal }}) })
						aliveC1 = false
						subs["C1"] = false
					}
					for _, c := range []string{"C1", "C2"} {
						if fmt.Sprint(e.got[c]) != fmt.Sprint(expGot[c]) {
							k := "publication-mismatch"
							if len(e.got[c]) < len(expGot[c]) {
								k = "publication-lost"
							} else if len(e.got[c]) > len(expGot[c]) {
								k = "publication-unexpected"
							}
							fail(k, "after %v: subscriber %s handled %v, expected %v", here, c, e.got[c], expGot[c])
							return
						}
						if fmt.Sprint(e.ends[c]) != fmt.Sprint(expEnds[c]) {
							fail("event-end-notification", "after %v: subscriber %s received %v, expected %v", here, c, e.ends[c], expEnds[c])
							return
						}
					}
					if aliveP && fmt.Sprint(e.notifs) != fmt.Sprint(expNotifs) {
						fail("producer-notification", "after %v: the producer was told %v, expected %v", here, e.notifs, expNotifs)
						return
					}
				}
				key = fmt.Sprintf("reg=%v P=%v C1=%v subs=%v/%v buf=%v", registered, aliveP, aliveC1, subs["C1"], subs["C2"], lastN(published, cfg.buffer) != nil && len(lastN(published, cfg.buffer)) > 0)
				key += fmt.Sprintf(" nbuf=%d X=%v", len(lastN(published, cfg.buffer)), aliveX)
			}))
			for _, f := range fails {
				fail(f.Kind, "%s", f.Detail)
			}
			return key
		}
		harn.Register(harn.Scenario{Property: "C18", Name: fmt.Sprintf("hist-buffer%d-notify%v", cfg.buffer, cfg.notify), Run: func(c *harn.Ctx) *harn.Result { return harn.OpSeq(c, spec) }})
	}

	// ---- races -------------------------------------------------------------------------------------
	race := func(name string, qb, tb int, buffer int, build func(w *World, e *evWorld) func()) {
		harn.Register(harn.Scenario{Property: "C18", Name: name, Run: func(c *harn.Ctx) *harn.Result {
			return harn.Explore(c, harn.Sched{QuickBound: qb, ThoroughBound: tb, Preempt: false, Cache: true, Body: nodeBody(func(w *World) {
				e := newEvWorld(w)
				e.producer("P")
				e.consumer("C1")
				e.consumer("C2")
				w.Do("P", func(p *probe) error {
					var err error
					e.token, err = p.RegisterEvent("ev", gen.EventOptions{Buffer: buffer})
					return err
				})
				check := build(w, e)
				w.Check = func() {
					check()
					w.Out("C1=%v C2=%v", e.got["C1"], e.got["C2"])
				}
			})})
		}})
	}
	// subscribe || publish: a publication that started after the subscription returned is handled
	// exactly once; one that overlaps is handled at most once through the mailbox and is not lost
	// (mailbox or returned buffer)
	for _, buffer := range []int{0, 2} {
		buffer := buffer
		race(fmt.Sprintf("race-subscribe-publish-buffer%d", buffer), 2, 3, buffer, func(w *World, e *evWorld) func() {
			clock := 0
			subReturned, subStarted := 0, 0
			var last []gen.MessageEvent
			var subErr error
			pubStart := map[string]int{}
			w.ex.Thread("SUB", func() {
				w.n.Send(w.pids["C1"], doMsg{func(p *probe) error {
					clock++
					subStarted = clock
					last, subErr = p.LinkEvent(e.ev)
					clock++
					subReturned = clock
					return nil
				}})
			})
			w.ex.Thread("PUB", func() {
				w.n.Send(w.pids["P"], doMsg{func(p *probe) error {
					for _, pl := range []string{"e1", "e2", "e3"} {
						clock++
						pubStart[pl] = clock
						if err := p.SendEvent("ev", e.token, pl); err != nil {
							w.ex.Fail("publish-result", "SendEvent returned %v", err)
						}
					}
					return nil
				}})
			})
			return func() {
				if subErr != nil {
					w.ex.Fail("subscribe-result", "LinkEvent returned %v", subErr)
					return
				}
				got := e.got["C1"]
				buf := msgsOf(last)
				for _, pl := range []string{"e1", "e2", "e3"} {
					n := count(got, pl)
					if n > 1 {
						w.ex.Fail("publication-twice", "%s was handled %d times by the subscriber: %v", pl, n, got)
					}
					if subReturned != 0 && pubStart[pl] > subReturned && n != 1 {
						w.ex.Fail("publication-lost", "%s was published after the subscription had returned but was handled %d times (%v)", pl, n, got)
					}
				}
				// no hole: what the subscriber knows of (handed over on subscription or handled from the mailbox)
				// is a run without gaps; a publication between two known ones cannot be missing
				known := map[string]bool{}
				for _, x := range buf {
					known[x] = true
				}
				for _, x := range got {
					known[x] = true
				}
				all := []string{"e1", "e2", "e3"}
				first, lastK := -1, -1
				for i, pl := range all {
					if known[pl] {
						if first < 0 {
							first = i
						}
						lastK = i
					}
				}
				for i := first; i >= 0 && i <= lastK; i++ {
					if !known[all[i]] {
						w.ex.Fail("publication-lost", "the subscriber was handed %v on subscription and handled %v: %s is missing in between", buf, got, all[i])
					}
				}
				// with a buffer, the newest publication cannot fall between the chairs: if it began after the subscription
				// call began it is either still buffered when the buffer is handed over or fanned out to the new link
				if buffer > 0 && subStarted != 0 && pubStart["e3"] > subStarted && !known["e3"] {
					w.ex.Fail("publication-lost", "e3 was published after LinkEvent had been called (buffer size %d); it was neither handed over on subscription (%v) nor handled (%v)", buffer, buf, got)
				}
				// per publisher order
				idx := -1
				for _, g := range got {
					k := strings.Index("e1e2e3", g) / 2
					if k < idx {
						w.ex.Fail("publication-order", "publications were handled in the order %v", got)
					}
					idx = k
				}
				// the returned buffer is a contiguous run of publications in order
				for i := 1; i < len(buf); i++ {
					if buf[i-1] >= buf[i] {
						w.ex.Fail("buffer-mismatch", "LinkEvent returned the buffer %v", buf)
					}
				}
				if len(buf) > buffer {
					w.ex.Fail("buffer-mismatch", "LinkEvent returned %d buffered messages, the buffer size is %d", len(buf), buffer)
				}
			}
		})
	}
	// two token holders publishing concurrently: each subscriber sees every publication once, in
	// each publisher's order
	race("race-publish-publish", 1, 2, 0, func(w *World, e *evWorld) func() {
		e.producer("H")
		w.Do("C1", func(p *probe) error { _, err := p.LinkEvent(e.ev); return err })
		w.Do("C2", func(p *probe) error { _, err := p.MonitorEvent(e.ev); return err })
		pub := func(who string, pls ...string) {
			w.n.Send(w.pids[who], doMsg{func(p *probe) error {
				for _, pl := range pls {
					if err := p.SendEvent("ev", e.token, pl); err != nil {
						w.ex.Fail("publish-result", "SendEvent by a token holder returned %v", err)
					}
				}
				return nil
			}})
		}
		w.ex.Thread("PUB1", func() { pub("P", "a1", "a2") })
		w.ex.Thread("PUB2", func() { pub("H", "b1", "b2") })
		return func() {
			for _, c := range []string{"C1", "C2"} {
				got := e.got[c]
				for _, pl := range []string{"a1", "a2", "b1", "b2"} {
					if n := count(got, pl); n != 1 {
						w.ex.Fail("publication-count", "subscriber %s handled %s %d times: %v", c, pl, n, got)
					}
				}
				pos := map[string]int{}
				for i, g := range got {
					pos[g] = i
				}
				if pos["a1"] > pos["a2"] || pos["b1"] > pos["b2"] {
					w.ex.Fail("publication-order", "subscriber %s handled %v", c, got)
				}
			}
		}
	})
	// subscribe || the end of the event (unregistration, owner killed): a subscription that was acknowledged
	// is told about the end exactly once, a refused one never; a subscriber of long standing exactly once
	for _, how := range []string{"link", "monitor"} {
		for _, end := range []string{"unregister", "owner-killed"} {
			how, end := how, end
			race("race-"+how+"-"+end, 2, 3, 1, func(w *World, e *evWorld) func() {
				w.Do("C2", func(p *probe) error { _, err := p.MonitorEvent(e.ev); return err })
				var subErr error
				returned := false
				w.ex.Thread("SUB", func() {
					w.n.Send(w.pids["C1"], doMsg{func(p *probe) error {
						if how == "link" {
							_, subErr = p.LinkEvent(e.ev)
						} else {
							_, subErr = p.MonitorEvent(e.ev)
						}
						returned = true
						return nil
					}})
				})
				w.ex.Thread("END", func() {
					if end == "unregister" {
						w.n.Send(w.pids["P"], doMsg{func(p *probe) error {
							if err := p.UnregisterEvent("ev"); err != nil {
								w.ex.Fail("unregister-result", "UnregisterEvent returned %v", err)
							}
							return nil
						}})
					} else {
						w.n.Kill(w.pids["P"])
					}
				})
				return func() {
					if !returned {
						w.ex.Fail("subscribe-hangs", "the subscription request did not return")
						return
					}
					n := len(e.ends["C1"])
					_, alive := w.n.ProcessInfo(w.pids["C1"])
					if how == "link" && alive != nil {
						n++ // an untrapped... (C1 traps; kept for completeness)
					}
					switch {
					case subErr == nil && n != 1:
						w.ex.Fail("subscriber-not-told-of-the-end", "%s event returned nil, the event ended (%s), the subscriber got %d notifications %v", how, end, n, e.ends["C1"])
					case subErr != nil && n != 0:
						w.ex.Fail("refused-subscriber-notified", "%s event returned %v, yet the process got %v", how, subErr, e.ends["C1"])
					}
					if len(e.ends["C2"]) != 1 {
						w.ex.Fail("subscriber-not-told-of-the-end", "the monitor of long standing got %d notifications %v", len(e.ends["C2"]), e.ends["C2"])
					}
					w.Out("sub=%v ends=%v", subErr, e.ends["C1"])
				}
			})
		}
	}
	// with notifications: two first subscribers arriving together produce ONE EventStart, two last ones leaving
	// together ONE EventStop
	for _, phase := range []string{"subscribe", "unsubscribe"} {
		phase := phase
		harn.Register(harn.Scenario{Property: "C18", Name: "race-" + phase + "-" + phase + "-notify", Run: func(c *harn.Ctx) *harn.Result {
			return harn.Explore(c, harn.Sched{QuickBound: 2, ThoroughBound: 3, Preempt: false, Cache: true, Body: nodeBody(func(w *World) {
				e := newEvWorld(w)
				e.producer("P")
				e.consumer("C1")
				e.consumer("C2")
				w.Do("P", func(p *probe) error {
					var err error
					e.token, err = p.RegisterEvent("ev", gen.EventOptions{Notify: true})
					return err
				})
				if phase == "unsubscribe" {
					w.Do("C1", func(p *probe) error { _, err := p.LinkEvent(e.ev); return err })
					w.Do("C2", func(p *probe) error { _, err := p.MonitorEvent(e.ev); return err })
				}
				var e1, e2 error
				w.ex.Thread("T1", func() {
					w.n.Send(w.pids["C1"], doMsg{func(p *probe) error {
						if phase == "subscribe" {
							_, e1 = p.LinkEvent(e.ev)
						} else {
							e1 = p.UnlinkEvent(e.ev)
						}
						return nil
					}})
				})
				w.ex.Thread("T2", func() {
					w.n.Send(w.pids["C2"], doMsg{func(p *probe) error {
						if phase == "subscribe" {
							_, e2 = p.MonitorEvent(e.ev)
						} else {
							e2 = p.DemonitorEvent(e.ev)
						}
						return nil
					}})
				})
				w.Check = func() {
					if e1 != nil || e2 != nil {
						w.ex.Fail("subscribe-result", "%s calls returned %v / %v", phase, e1, e2)
					}
					want := "[start]"
					if phase == "unsubscribe" {
						want = "[start stop]"
					}
					if fmt.Sprint(e.notifs) != want {
						w.ex.Fail("producer-notification", "two concurrent %s calls: the producer was told %v, expected %s", phase, e.notifs, want)
					}
					w.Out("notifs=%v", e.notifs)
				}
			})})
		}})
	}
	// subscribers on another node: two of them on the same node, plus a local one
	// (the two-subscriber case also decides C12's "an event sent to a process on a connected node is received exactly once")
	// (21, 22: the producer's node maps the event's name to another one on this connection - route.AtomMapping - so the
	// subscribers know the event as 'evB')
	for _, nsub := range []int{1, 2, 3, 12, 21, 22} {
		nsub := nsub
		prop := "C18"
		if nsub == 12 {
			nsub, prop = 2, "C12"
		}
		scName := fmt.Sprintf("remote-%d-subscribers", nsub)
		remoteName := gen.Atom("ev")
		var mapping map[gen.Atom]gen.Atom
		if nsub > 20 {
			nsub -= 20
			scName = fmt.Sprintf("remote-%d-subscribers-mapped-name", nsub)
			remoteName = "evB"
			mapping = map[gen.Atom]gen.Atom{"ev": "evB"}
		}
		harn.Register(harn.Scenario{Property: prop, Name: scName, Run: func(c *harn.Ctx) *harn.Result {
			return harn.Explore(c, harn.Sched{QuickBound: 1, ThoroughBound: 2, Preempt: false, Cache: true, HorizonS: 30, Body: netBody(netOpts{atomMapA: mapping}, func(nw *NetWorld) {
				ea := newEvWorld(nw.a)
				eb := &evWorld{w: nw.b, ev: gen.Event{Name: remoteName, Node: nw.a.n.Name()}, got: map[string][]string{}, ends: map[string][]string{}}
				ea.producer("P")
				ea.consumer("L")
				names := []string{"R1", "R2", "R3"}[:nsub]
				for _, nm := range names {
					eb.consumer(nm)
				}
				nw.a.Do("P", func(p *probe) error {
					var err error
					ea.token, err = p.RegisterEvent("ev", gen.EventOptions{Buffer: 0})
					return err
				})
				nw.connect()
				if nw.ex.Failed() {
					return
				}
				nw.a.Do("L", func(p *probe) error { _, err := p.LinkEvent(ea.ev); return err })
				for i, nm := range names {
					i := i
					var err error
					nw.b.Do(nm, func(p *probe) error {
						if i%2 == 0 {
							_, err = p.MonitorEvent(eb.ev)
						} else {
							_, err = p.LinkEvent(eb.ev)
						}
						return nil
					})
					if err != nil {
						nw.ex.Fail("subscribe-result", "remote subscription of %s returned %v", nm, err)
					}
				}
				nw.ex.Thread("PUB", func() {
					nw.a.n.Send(nw.a.pids["P"], doMsg{func(p *probe) error {
						for _, pl := range []string{"e1", "e2", "e3"} {
							if err := p.SendEvent("ev", ea.token, pl); err != nil {
								nw.ex.Fail("publish-result", "SendEvent returned %v", err)
							}
						}
						return nil
					}})
				})
				nw.Check = func() {
					want := "[e1 e2 e3]"
					if got := fmt.Sprint(ea.got["L"]); got != want {
						nw.ex.Fail("publication-count", "the local subscriber handled %s", got)
					}
					for _, nm := range names {
						if got := fmt.Sprint(eb.got[nm]); got != want {
							nw.ex.Fail("publication-count", "remote subscriber %s (one of %d on its node) handled %s, published %s", nm, nsub, got, want)
						}
					}
					// the end of the event: unregistered (odd number of remote subscribers) or its owner killed (even):
					// one notification for every subscriber, local or remote
					if nsub%2 == 1 {
						nw.a.Do("P", func(p *probe) error { return p.UnregisterEvent("ev") })
					} else {
						nw.a.Setup("kill-owner", func() { nw.a.n.Kill(nw.a.pids["P"]) })
					}
					if n := len(ea.ends["L"]); n != 1 {
						nw.ex.Fail("event-end-notification", "the event ended; its local subscriber got %d notifications %v", n, ea.ends["L"])
					}
					for _, nm := range names {
						if n := len(eb.ends[nm]); n != 1 {
							nw.ex.Fail("event-end-notification", "the event ended (as %q on the subscribers' node); remote subscriber %s got %d notifications %v", remoteName, nm, n, eb.ends[nm])
						}
					}
					nw.Out("L=%v R1=%v ends=%v/%v", ea.got["L"], eb.got["R1"], ea.ends["L"], eb.ends["R1"])
				}
			})})
		}})
	}
	// register || publish with the zero token
	harn.Register(harn.Scenario{Property: "C18", Name: "race-register-zero-token", Run: func(c *harn.Ctx) *harn.Result {
		return harn.Explore(c, harn.Sched{QuickBound: 2, ThoroughBound: 3, Preempt: true, Cache: true, Body: nodeBody(func(w *World) {
			e := newEvWorld(w)
			e.producer("P")
			e.producer("X")
			var err error
			w.ex.Thread("REG", func() {
				w.n.Send(w.pids["P"], doMsg{func(p *probe) error { _, e := p.RegisterEvent("ev", gen.EventOptions{}); return e }})
			})
			w.ex.Thread("FORGE", func() {
				w.n.Send(w.pids["X"], doMsg{func(p *probe) error { err = p.SendEvent("ev", gen.Ref{}, "forged"); return nil }})
			})
			w.Check = func() {
				if err == nil {
					w.ex.Fail("publish-without-token", "a publication with the zero token was accepted while the event was being registered")
				}
				w.Out("err=%v", err)
			}
		})})
	}})
	// register || register of one name by two processes: one of them owns the event, only its token publishes,
	// and when the loser terminates the winner's event and its subscriber are untouched
	harn.Register(harn.Scenario{Property: "C18", Name: "race-register-register", Run: func(c *harn.Ctx) *harn.Result {
		return harn.Explore(c, harn.Sched{QuickBound: 2, ThoroughBound: 3, Preempt: true, Cache: true, Body: nodeBody(func(w *World) {
			e := newEvWorld(w)
			e.producer("P1")
			e.producer("P2")
			e.consumer("C1")
			tokens := map[string]gen.Ref{}
			errs := map[string]error{}
			for _, name := range []string{"P1", "P2"} {
				name := name
				w.ex.Thread("REG-"+name, func() {
					w.n.Send(w.pids[name], doMsg{func(p *probe) error {
						tokens[name], errs[name] = p.RegisterEvent("ev", gen.EventOptions{})
						return nil
					}})
				})
			}
			w.Check = func() {
				var winners []string
				for _, name := range []string{"P1", "P2"} {
					if errs[name] == nil {
						winners = append(winners, name)
					}
				}
				w.Out("winners=%v errs=%v", winners, errs)
				if len(winners) != 1 {
					w.ex.Fail("event-owner-count", "two processes registered the event 'ev' at the same moment: %d of them succeeded (%v)", len(winners), errs)
					return
				}
				win := winners[0]
				lose := map[string]string{"P1": "P2", "P2": "P1"}[win]
				var subErr, pubErr error
				w.Do("C1", func(p *probe) error { _, subErr = p.LinkEvent(e.ev); return nil })
				// the loser goes away: nothing of the winner's event may go with it
				w.Setup("kill-loser", func() { w.n.Kill(w.pids[lose]) })
				w.Do(win, func(p *probe) error { pubErr = p.SendEvent("ev", tokens[win], "e1"); return nil })
				if subErr != nil || pubErr != nil {
					w.ex.Fail("publish-result", "the owner %s of the event (the other registration failed with %v): subscription returned %v, its publication %v", win, errs[lose], subErr, pubErr)
				}
				if fmt.Sprint(e.got["C1"]) != "[e1]" || len(e.ends["C1"]) != 0 {
					w.ex.Fail("publication-count", "after the failed registrant %s terminated, the subscriber of %s's event handled %v and was told %v (expected [e1] and nothing)", lose, win, e.got["C1"], e.ends["C1"])
				}
			}
		})})
	}})
}
