//go:build verif

package node

import (
	"fmt"
	"sort"
	"strings"
	"sync/atomic"

	"ergo.services/ergo/gen"
	"verif.local/vsched"
	"verif.local/vsched/harn"
)

// C06 — registry integrity: unique identities, complete release on termination.

// whoHas sends a ping by name/alias and reports which probe handled it ("" = nobody).
func (w *World) resolve(to any, tag string) string {
	w.nsetup++
	var err error
	w.Setup(fmt.Sprintf("ping%d", w.nsetup), func() { err = w.n.Send(to, "ping-"+tag) })
	if err != nil {
		return ""
	}
	var who []string
	for n, r := range w.recs {
		if count(handled(r, "M:"), "ping-"+tag) > 0 {
			who = append(who, n)
		}
	}
	sort.Strings(who)
	return strings.Join(who, "+")
}

func c06Race(name string, qb, tb int, build func(w *World)) {
	harn.Register(harn.Scenario{Property: "C06", Name: name, Run: func(c *harn.Ctx) *harn.Result {
		return harn.Explore(c, harn.Sched{QuickBound: qb, ThoroughBound: tb, Preempt: true, Cache: true, Body: nodeBody(build)})
	}})
}

// registryClean: every name, alias, event table entry belongs to a live process; a terminated
// process is absent from listings and from every relation.
func (w *World) registryClean() {
	n := w.n
	live := map[gen.PID]bool{}
	n.processes.Range(func(k, v any) bool { live[k.(gen.PID)] = true; return true })
	n.names.Range(func(k, v any) bool {
		p := v.(*process)
		if !live[p.pid] {
			w.ex.Fail("name-of-dead-process", "name %q is registered for %s, which is not a live process", k, p.pid)
		}
		return true
	})
	n.aliases.Range(func(k, v any) bool {
		p := v.(*process)
		if !live[p.pid] {
			w.ex.Fail("alias-of-dead-process", "alias %s belongs to %s, which is not a live process", k, p.pid)
		}
		return true
	})
	n.events.Range(func(k, v any) bool {
		e := v.(*eventOwner)
		if !live[e.producer] && e.producer != n.corePID {
			w.ex.Fail("event-of-dead-process", "event %s belongs to %s, which is not a live process", k, e.producer)
		}
		return true
	})
	for name, pid := range w.pids {
		if live[pid] {
			continue
		}
		if l, m := n.targetManager.GetTargetsForConsumer(pid); len(l)+len(m) > 0 {
			w.ex.Fail("relation-of-dead-requester", "%s (%s) has terminated but still appears as requester of links %v monitors %v", name, pid, l, m)
		}
		if c := n.targetManager.GetConsumersForTarget(pid); len(c) > 0 {
			w.ex.Fail("relation-on-dead-target", "%s (%s) has terminated but is still a relation target of %v", name, pid, c)
		}
		if list, err := n.ProcessList(); err == nil {
			for _, q := range list {
				if q == pid {
					w.ex.Fail("dead-process-listed", "%s is listed by ProcessList after its termination", pid)
				}
			}
		}
	}
}

func init() {
	// two SpawnRegister calls claiming one name
	c06Race("race-spawnregister-same-name", 2, 3, func(w *World) {
		var errs [2]error
		var pids [2]gen.PID
		for i := 0; i < 2; i++ {
			i := i
			nm := fmt.Sprintf("C%d", i)
			r := &rec{name: nm}
			w.recs[nm] = r
			w.ex.Thread(fmt.Sprintf("SP%d", i), func() {
				pids[i], errs[i] = w.n.SpawnRegister("nm", func() gen.ProcessBehavior { return &probe{} }, gen.ProcessOptions{}, probeCfg{rec: r})
				if errs[i] == nil {
					w.pids[nm] = pids[i]
				}
			})
		}
		w.Check = func() {
			ok := 0
			for _, e := range errs {
				if e == nil {
					ok++
				}
			}
			if ok != 1 {
				w.ex.Fail("name-claim-count", "two SpawnRegister calls for one name: %d succeeded (errors %v)", ok, errs)
			}
			who := w.resolve(gen.Atom("nm"), "x")
			for i := range errs {
				if errs[i] == nil && who != fmt.Sprintf("C%d", i) {
					w.ex.Fail("name-resolves-wrong", "claimant C%d won the name but a message sent to it reached %q", i, who)
				}
			}
			w.registryClean()
			w.Out("errs=%v who=%s", errs, who)
		}
	})
	// RegisterName from two processes (own callbacks) and through Node.RegisterName
	c06Race("race-registername-3", 1, 2, func(w *World) {
		for i := 0; i < 3; i++ {
			w.spawnProbe(fmt.Sprintf("C%d", i), probeCfg{}, gen.ProcessOptions{})
		}
		var errs [3]error
		for i := 0; i < 2; i++ {
			i := i
			w.ex.Thread(fmt.Sprintf("R%d", i), func() {
				w.n.Send(w.pids[fmt.Sprintf("C%d", i)], doMsg{func(p *probe) error { errs[i] = p.RegisterName("nm"); return nil }})
			})
		}
		w.ex.Thread("R2", func() { errs[2] = w.n.RegisterName("nm", w.pids["C2"]) })
		w.Check = func() {
			ok, winner := 0, ""
			for i, e := range errs {
				if e == nil {
					ok++
					winner = fmt.Sprintf("C%d", i)
				}
			}
			if ok != 1 {
				w.ex.Fail("name-claim-count", "three RegisterName calls for one name: %d succeeded (errors %v)", ok, errs)
			}
			who := w.resolve(gen.Atom("nm"), "x")
			if ok == 1 && who != winner {
				w.ex.Fail("name-resolves-wrong", "%s won the name but a message sent to it reached %q", winner, who)
			}
			for i := 0; i < 3; i++ {
				info, err := w.n.ProcessInfo(w.pids[fmt.Sprintf("C%d", i)])
				if err == nil && (info.Name == "nm") != (errs[i] == nil) {
					w.ex.Fail("name-info-mismatch", "C%d: RegisterName returned %v but ProcessInfo reports name %q", i, errs[i], info.Name)
				}
			}
			w.registryClean()
			w.Out("errs=%v who=%s", errs, who)
		}
	})
	// RegisterName racing with the termination of the same process
	for _, via := range []string{"node", "self"} {
		via := via
		c06Race("race-registername-vs-kill-"+via, 2, 3, func(w *World) {
			pid := w.spawnProbe("C0", probeCfg{}, gen.ProcessOptions{})
			var err error
			w.ex.Thread("R", func() {
				if via == "node" {
					err = w.n.RegisterName("nm", pid)
				} else {
					w.n.Send(pid, doMsg{func(p *probe) error { err = p.RegisterName("nm"); return nil }})
				}
			})
			w.ex.Thread("K", func() { w.n.Kill(pid) })
			w.Check = func() {
				w.registryClean()
				// the name must be claimable again by another process
				w.spawnProbe("C1", probeCfg{}, gen.ProcessOptions{})
				if e := w.n.RegisterName("nm", w.pids["C1"]); e != nil {
					w.ex.Fail("name-not-reclaimable", "the only holder of the name has terminated, another process gets %v", e)
				}
				w.Out("err=%v", err)
			}
		})
	}
	// UnregisterName by the holder racing with RegisterName by another process
	c06Race("race-unregister-vs-register", 2, 3, func(w *World) {
		w.spawnProbe("C0", probeCfg{}, gen.ProcessOptions{})
		w.spawnProbe("C1", probeCfg{}, gen.ProcessOptions{})
		w.Do("C0", func(p *probe) error { return nilErr(p.RegisterName("nm")) })
		var uerr, rerr error
		w.ex.Thread("U", func() { w.n.Send(w.pids["C0"], doMsg{func(p *probe) error { uerr = p.UnregisterName(); return nil }}) })
		w.ex.Thread("R", func() {
			w.n.Send(w.pids["C1"], doMsg{func(p *probe) error { rerr = p.RegisterName("nm"); return nil }})
		})
		w.Check = func() {
			who := w.resolve(gen.Atom("nm"), "x")
			want := ""
			if rerr == nil {
				want = "C1"
			}
			if uerr != nil {
				w.ex.Fail("unregister-failed", "the holder's UnregisterName returned %v", uerr)
			}
			if who != want {
				w.ex.Fail("name-resolves-wrong", "unregister=%v register=%v but the name resolves to %q (want %q)", uerr, rerr, who, want)
			}
			w.registryClean()
			w.Out("u=%v r=%v who=%s", uerr, rerr, who)
		}
	})
	// RegisterEvent by two processes for one event name
	c06Race("race-registerevent", 2, 3, func(w *World) {
		w.spawnProbe("C0", probeCfg{}, gen.ProcessOptions{})
		w.spawnProbe("C1", probeCfg{}, gen.ProcessOptions{})
		var errs [2]error
		for i := 0; i < 2; i++ {
			i := i
			w.ex.Thread(fmt.Sprintf("R%d", i), func() {
				w.n.Send(w.pids[fmt.Sprintf("C%d", i)], doMsg{func(p *probe) error { _, errs[i] = p.RegisterEvent("ev", gen.EventOptions{}); return nil }})
			})
		}
		w.Check = func() {
			ok := 0
			for _, e := range errs {
				if e == nil {
					ok++
				}
			}
			if ok != 1 {
				w.ex.Fail("event-claim-count", "two RegisterEvent calls for one name: %d succeeded (%v)", ok, errs)
			}
			w.registryClean()
			w.Out("errs=%v", errs)
		}
	})
	// concurrent spawns, aliases and references: identifiers are unique
	// the node releases a process's name while another name is being registered for the same process; the process
	// then terminates: neither name may stay behind
	c06Race("race-unregister-vs-register-other-name", 2, 3, func(w *World) {
		pid := w.spawnProbe("P1", probeCfg{}, gen.ProcessOptions{})
		w.Setup("reg-a", func() {
			if err := w.n.RegisterName("name-a", pid); err != nil {
				panic(err)
			}
		})
		w.ex.Thread("U", func() { w.n.UnregisterName("name-a") })
		w.ex.Thread("R", func() { w.n.RegisterName("name-b", pid) })
		prev := w.Check
		w.Check = func() {
			w.Setup("end-p1", func() { w.n.Kill(pid) })
			w.registryClean()
			if prev != nil {
				prev()
			}
		}
	})
	// a spawn-with-name that loses the name, racing with ordinary spawns: no process id is handed out twice
	c06Race("race-failed-spawnregister-vs-spawn", 2, 3, func(w *World) {
		w.Setup("holder", func() {
			if _, err := w.n.SpawnRegister("held", func() gen.ProcessBehavior { return &probe{} }, gen.ProcessOptions{}, probeCfg{rec: &rec{}}); err != nil {
				panic(err)
			}
		})
		var ids []gen.PID
		var lostErr error
		w.ex.Thread("LOSE", func() {
			_, lostErr = w.n.SpawnRegister("held", func() gen.ProcessBehavior { return &probe{} }, gen.ProcessOptions{}, probeCfg{rec: &rec{}})
		})
		for i := 0; i < 2; i++ {
			i := i
			w.ex.Thread(fmt.Sprintf("SP%d", i), func() {
				nm := fmt.Sprintf("N%d", i)
				r := &rec{name: nm}
				w.recs[nm] = r
				pid, err := w.n.Spawn(func() gen.ProcessBehavior { return &probe{} }, gen.ProcessOptions{}, probeCfg{rec: r})
				if err == nil {
					ids = append(ids, pid)
					w.pids[nm] = pid
				}
			})
		}
		w.Check = func() {
			if lostErr != gen.ErrTaken {
				w.ex.Fail("registry-result", "SpawnRegister under a name that is held returned %v", lostErr)
			}
			if len(ids) == 2 && ids[0] == ids[1] {
				w.ex.Fail("identifier-repeated", "two processes were spawned with the same process id %s", ids[0])
			}
			for _, pid := range ids {
				if _, err := w.n.ProcessInfo(pid); err != nil {
					w.ex.Fail("spawned-process-missing", "Spawn returned %s, but the process table does not know it: %v", pid, err)
				}
			}
		}
	})
	// a monitor/link request on an alias racing with the termination of its owner: afterwards the dead alias is nobody's target
	for _, rel := range []string{"link", "monitor"} {
		rel := rel
		c06Race("race-"+rel+"-alias-vs-owner-kill", 1, 2, func(w *World) {
			w.spawnProbe("T", probeCfg{}, gen.ProcessOptions{})
			var alias gen.Alias
			w.Do("T", func(p *probe) error { a, err := p.CreateAlias(); alias = a; return err })
			w.spawnProbe("O", probeCfg{trap: true}, gen.ProcessOptions{})
			w.ex.Thread("REQ", func() {
				w.n.Send(w.pids["O"], doMsg{func(p *probe) error {
					if rel == "link" {
						p.LinkAlias(alias)
					} else {
						p.MonitorAlias(alias)
					}
					return nil
				}})
			})
			w.ex.Thread("K", func() { w.n.Kill(w.pids["T"]) })
			w.Check = func() {
				if c := w.n.targetManager.GetConsumersForTarget(alias); len(c) > 0 {
					w.ex.Fail("relation-on-dead-target", "the owner of alias %s has terminated, the alias is still a relation target of %v", alias, c)
				}
			}
		})
	}
	c06Race("race-identifiers", 1, 2, func(w *World) {
		w.spawnProbe("C0", probeCfg{}, gen.ProcessOptions{})
		w.spawnProbe("C1", probeCfg{}, gen.ProcessOptions{})
		var ids []string
		for i := 0; i < 2; i++ {
			i := i
			w.ex.Thread(fmt.Sprintf("A%d", i), func() {
				w.n.Send(w.pids[fmt.Sprintf("C%d", i)], doMsg{func(p *probe) error {
					a, _ := p.CreateAlias()
					ids = append(ids, fmt.Sprintf("ref%v", a.ID))
					pid, err := p.Spawn(func() gen.ProcessBehavior { return &probe{} }, gen.ProcessOptions{}, probeCfg{rec: &rec{}})
					if err == nil {
						ids = append(ids, fmt.Sprintf("pid%d", pid.ID))
					}
					return nil
				}})
			})
		}
		w.ex.Thread("M", func() {
			r := w.n.MakeRef()
			ids = append(ids, fmt.Sprintf("ref%v", r.ID))
			pid, err := w.n.Spawn(func() gen.ProcessBehavior { return &probe{} }, gen.ProcessOptions{}, probeCfg{rec: &rec{}})
			if err == nil {
				ids = append(ids, fmt.Sprintf("pid%d", pid.ID))
			}
		})
		w.Check = func() {
			seen := map[string]bool{}
			for _, x := range ids {
				if seen[x] {
					w.ex.Fail("identifier-repeated", "identifier %s was produced twice: %v", x, ids)
				}
				seen[x] = true
			}
			if len(ids) != 6 {
				w.ex.Fail("identifier-missing", "expected 6 identifiers, got %v", ids)
			}
			w.Out("n=%d", len(ids))
		}
	})

	// ---- identifiers over long runs: complete windows of consecutive counter values -----------
	// (registered for C07 as well: a reference is all that ties a reply to its request)
	for _, reg := range [][2]string{{"C06", "makeref-windows"}, {"C07", "request-references-never-repeat"}} {
		harn.Register(harn.Scenario{Property: reg[0], Name: reg[1], Run: func(c *harn.Ctx) *harn.Result {
			r := harn.NewResult("enum")
			n := startNode("verif@localhost", gen.NetworkModeDisabled)
			defer dropNode(n)
			width := 1 << 20
			if c.Thorough {
				width = 1 << 22
			}
			starts := map[string]uint64{
				"default-start": atomic.LoadUint64(&n.uniqID),
				"below-2^18":    (1 << 18) - 100,
				"below-2^36":    (1 << 36) - uint64(width/2),
				"below-2^46":    (1 << 46) - uint64(width/2),
				"below-2^64":    ^uint64(0) - uint64(width/2),
				"k*2^18":        uint64(12345)<<18 - 50,
			}
			var names []string
			for k := range starts {
				names = append(names, k)
			}
			sort.Strings(names)
			for _, name := range names {
				atomic.StoreUint64(&n.uniqID, starts[name])
				seen := make(map[[3]uint64]int, width)
				for i := 0; i < width; i++ {
					ref := n.MakeRef()
					if j, dup := seen[ref.ID]; dup {
						r.Fail("reference-repeated", "window %s (counter starts at %d): reference #%d equals reference #%d (%v)", name, starts[name], i, j, ref.ID)
						break
					}
					seen[ref.ID] = i
				}
				r.Executions += width
				r.Outcomes["window "+name]++
			}
			r.States, r.Transitions, r.Distinct = len(names), r.Executions, r.Executions
			r.Samples = append(r.Samples, map[string]any{"windows": names, "width": width})
			return r
		}})
	}

	// ---- histories (Engine B) ---------------------------------------------------------------------
	alphabet := []string{"P1.register", "P2.register", "P1.unregister", "P1.alias", "P1.delalias0", "P1.delalias1", "P1.event", "P2.event", "P1.unevent",
		"P1.link", "P1.monitor", "P2.link", "P1.meta", "P1.normal", "P1.kill", "N.register-P2", "P2.normal"}
	spec := harn.OpSeqSpec{Alphabet: alphabet, DepthQuick: 4, DepthThorough: 5, NoDedupQuick: 2, NoDedupThorough: 3}
	spec.Run = func(hist []int, fail func(kind, format string, a ...any)) string {
		key := ""
		fails, _ := vsched.RunOnce(10, nodeBody(func(w *World) {
			w.spawnProbe("P1", probeCfg{trap: true}, gen.ProcessOptions{})
			w.spawnProbe("P2", probeCfg{trap: true}, gen.ProcessOptions{})
			alive := map[string]bool{"P1": true, "P2": true}
			nameOwner, evOwner := "", ""
			var aliases []gen.Alias // of P1 (live ones)
			var deadAliases []gen.Alias
			var metas []gen.Alias
			rel := map[string]bool{}
			for step, opi := range hist {
				op := alphabet[opi]
				who, what, _ := strings.Cut(op, ".")
				if who != "N" && !alive[who] {
					return
				}
				var err error
				do := func(fn func(p *probe) error) {
					ran := false
					w.Do(who, func(p *probe) error { err = fn(p); ran = true; return nil })
					if !ran {
						fail("op-not-run", "%s did not execute", op)
					}
				}
				expect := func(want bool, what string) {
					if (err == nil) != want {
						fail("registry-result", "after %v: %s returned %v, model says success=%v", namesOf(alphabet, hist[:step+1]), what, err, want)
					}
				}
				switch what {
				case "register":
					free := nameOwner == "" && !w.hasName(who)
					do(func(p *probe) error { return p.RegisterName("nm") })
					expect(free, op)
					if err == nil {
						nameOwner = who
					}
				case "register-P2":
					if !alive["P2"] {
						return
					}
					free := nameOwner == "" && !w.hasName("P2")
					err = w.n.RegisterName("nm", w.pids["P2"])
					expect(free, op)
					if err == nil {
						nameOwner = "P2"
					}
				case "unregister":
					do(func(p *probe) error { return p.UnregisterName() })
					expect(nameOwner == who, op)
					if err == nil {
						nameOwner = ""
					}
				case "alias":
					if len(aliases) >= 3 {
						return
					}
					var a gen.Alias
					do(func(p *probe) error { var e error; a, e = p.CreateAlias(); return e })
					expect(true, op)
					aliases = append(aliases, a)
				case "delalias0", "delalias1":
					i := int(what[len(what)-1] - '0')
					if i >= len(aliases) {
						return
					}
					a := aliases[i]
					do(func(p *probe) error { return p.DeleteAlias(a) })
					expect(true, op)
					aliases = append(aliases[:i:i], aliases[i+1:]...)
					deadAliases = append(deadAliases, a)
				case "event":
					do(func(p *probe) error { _, e := p.RegisterEvent("ev", gen.EventOptions{}); return e })
					expect(evOwner == "", op)
					if err == nil {
						evOwner = who
					}
				case "unevent":
					do(func(p *probe) error { return p.UnregisterEvent("ev") })
					expect(evOwner == who, op)
					if err == nil {
						evOwner = ""
					}
				case "link", "monitor":
					other := "P2"
					if who == "P2" {
						other = "P1"
					}
					if !alive[other] {
						return
					}
					opid := w.pids[other]
					do(func(p *probe) error {
						if what == "link" {
							return p.LinkPID(opid)
						}
						return p.MonitorPID(opid)
					})
					expect(!rel[who+what], op)
					rel[who+what] = true
				case "meta":
					if len(metas) >= 1 {
						return
					}
					var a gen.Alias
					do(func(p *probe) error {
						var e error
						a, e = p.SpawnMeta(&metaProbe{r: &rec{}, start: &vsched.Gate{}}, gen.MetaOptions{})
						return e
					})
					expect(true, op)
					metas = append(metas, a)
				case "normal", "kill":
					w.nsetup++
					w.Setup(fmt.Sprintf("term%d", w.nsetup), func() {
						if what == "kill" {
							w.n.Kill(w.pids[who])
						} else {
							w.n.Send(w.pids[who], doMsg{func(p *probe) error { return gen.TerminateReasonNormal }})
						}
					})
					alive[who] = false
					if nameOwner == who {
						nameOwner = ""
					}
					if evOwner == who {
						evOwner = ""
					}
					if who == "P1" {
						deadAliases = append(deadAliases, aliases...)
						deadAliases = append(deadAliases, metas...)
						aliases, metas = nil, nil
						for k := range rel {
							delete(rel, k)
						}
					} else { // P2 goes: only what was P2's goes with it
						for k := range rel {
							if strings.HasPrefix(k, who) {
								delete(rel, k)
							}
						}
					}
				}
				// invariants in every state
				w.registryClean()
				if _, err := w.n.ProcessInfo(w.pids[who]); who != "N" && (err == nil) != alive[who] {
					fail("liveness-mismatch", "after %v: %s alive=%v but ProcessInfo says %v", namesOf(alphabet, hist[:step+1]), who, alive[who], err)
				}
				if got := w.resolve(gen.Atom("nm"), fmt.Sprint(step)); got != nameOwner {
					fail("name-resolves-wrong", "after %v: name resolves to %q, model owner %q", namesOf(alphabet, hist[:step+1]), got, nameOwner)
				}
				for i, a := range aliases {
					if got := w.resolve(a, fmt.Sprintf("%d-a%d", step, i)); got != "P1" {
						fail("alias-resolves-wrong", "after %v: live alias #%d of P1 resolves to %q", namesOf(alphabet, hist[:step+1]), i, got)
					}
				}
				for i, a := range deadAliases {
					if got := w.resolve(a, fmt.Sprintf("%d-d%d", step, i)); got != "" {
						fail("dead-alias-resolves", "after %v: deleted/terminated alias #%d still delivers to %q", namesOf(alphabet, hist[:step+1]), i, got)
					}
					if _, err := w.n.MetaInfo(a); err == nil {
						fail("dead-meta-alive", "after %v: meta process %v of a terminated owner is still there", namesOf(alphabet, hist[:step+1]), a)
					}
				}
				if alive["P1"] {
					info, err := w.n.ProcessInfo(w.pids["P1"])
					if err == nil {
						got := map[gen.Alias]bool{}
						for _, a := range info.Aliases {
							got[a] = true
						}
						same := len(got) == len(aliases)
						for _, a := range aliases {
							same = same && got[a]
						}
						if !same {
							fail("alias-list-mismatch", "after %v: P1 lists aliases %v, model has %v", namesOf(alphabet, hist[:step+1]), info.Aliases, aliases)
						}
					}
				}
				// the event is in the node's table exactly when it has an owner
				if _, ok := w.n.events.Load(gen.Event{Name: "ev", Node: w.n.name}); ok != (evOwner != "") {
					fail("event-table-mismatch", "after %v: the event is registered=%v in the node's table, model owner %q", namesOf(alphabet, hist[:step+1]), ok, evOwner)
				}
				// the event is claimable by someone else exactly when it has no owner
				if evOwner == "" && alive["P2"] {
					var e error
					w.Do("P2", func(p *probe) error {
						_, e = p.RegisterEvent("ev", gen.EventOptions{})
						if e == nil {
							p.UnregisterEvent("ev")
						}
						return nil
					})
					if e != nil {
						fail("event-not-reclaimable", "after %v: event has no owner but RegisterEvent returns %v", namesOf(alphabet, hist[:step+1]), e)
					}
				}
			}
			var rs []string
			for k := range rel {
				rs = append(rs, k)
			}
			sort.Strings(rs)
			key = fmt.Sprintf("alive=%v,%v name=%s ev=%s aliases=%d metas=%d dead=%d rel=%v", alive["P1"], alive["P2"], nameOwner, evOwner, len(aliases), len(metas), len(deadAliases), rs)
		}))
		for _, f := range fails {
			fail(f.Kind, "%s", f.Detail)
		}
		return key
	}
	harn.Register(harn.Scenario{Property: "C06", Name: "hist-registry", Run: func(c *harn.Ctx) *harn.Result { return harn.OpSeq(c, spec) }})
}

func (w *World) hasName(who string) bool {
	info, err := w.n.ProcessInfo(w.pids[who])
	return err == nil && info.Name != ""
}
