//go:build verif

package node

import (
	"fmt"
	"strings"

	"ergo.services/ergo/gen"
	"verif.local/vsched"
	"verif.local/vsched/harn"
)

// C03 — per-sender FIFO within a priority, strict priority classes.

type ordMsg struct {
	payload  string
	sender   string
	seq      int
	class    int // 3 urgent (max, exit, inspect), 2 system (high, down), 1 main
	started  int // logical time at which the send began
	returned int // logical time at which the send returned (0 = not sent / failed)
}

type ordLog struct {
	clock int
	msgs  map[string]*ordMsg
	order []string // payloads in handling order
	begin []int
	end   []int
}

func (o *ordLog) tick() int { o.clock++; return o.clock }

func classOf(p gen.MessagePriority) int {
	switch p {
	case gen.MessagePriorityMax:
		return 3
	case gen.MessagePriorityHigh:
		return 2
	}
	return 1
}

func prioOf(c byte) gen.MessagePriority {
	switch c {
	case 'M':
		return gen.MessagePriorityMax
	case 'H':
		return gen.MessagePriorityHigh
	}
	return gen.MessagePriorityNormal
}

func (o *ordLog) send(payload, sender string, seq, class int, do func() error) {
	m := &ordMsg{payload: payload, sender: sender, seq: seq, class: class, started: o.tick()}
	o.msgs[payload] = m
	if err := do(); err == nil {
		m.returned = o.tick()
	} else {
		m.started = 0
	}
}

// ordering oracle, evaluated at quiescence
func (o *ordLog) check(ex *vsched.Exec) {
	idx := map[string]int{}
	for i, p := range o.order {
		if _, dup := idx[p]; dup {
			ex.Fail("handled-twice", "%s handled twice: %v", p, o.order)
		}
		idx[p] = i
	}
	// (a) per sender and class: handling order == send order
	for _, a := range o.msgs {
		for _, b := range o.msgs {
			if a.sender != b.sender || a.class != b.class || a.seq >= b.seq || a.returned == 0 || b.returned == 0 {
				continue
			}
			ia, oka := idx[a.payload]
			ib, okb := idx[b.payload]
			if oka && okb && ia > ib {
				ex.Fail("fifo-violated", "sender %s sent %s before %s (same priority) but they were handled in the order %v", a.sender, a.payload, b.payload, o.order)
			}
			if !oka && okb {
				ex.Fail("fifo-violated", "sender %s sent %s before %s (same priority); %s was handled, %s was not: %v", a.sender, a.payload, b.payload, b.payload, a.payload, o.order)
			}
		}
	}
	// (b) strict classes: when R picked message k, no message of a higher class whose send had
	// returned before R's previous callback ended was still waiting
	for k := 1; k < len(o.order); k++ {
		m := o.msgs[o.order[k]]
		if m == nil {
			continue
		}
		tprev := o.end[k-1]
		for _, x := range o.msgs {
			if x.returned == 0 || x.returned >= tprev || x.class <= m.class {
				continue
			}
			if ix, ok := idx[x.payload]; !ok || ix > k {
				// The mailbox queue links a pushed item in two steps; a completed push stays
				// invisible to the consumer while an earlier push of ANOTHER sender to the same
				// queue is still between its two steps. That window is reported separately.
				hidden := false
				for _, y := range o.msgs {
					if y != x && y.sender != x.sender && y.class == x.class && y.started != 0 && y.started < x.returned &&
						(y.returned == 0 || y.returned > tprev) {
						hidden = true
					}
				}
				if hidden {
					ex.Fail("priority-inversion-behind-inflight-push", "picked %s (class %d) while %s (class %d), whose send had returned, was waiting behind an unfinished push of another sender; order=%v", m.payload, m.class, x.payload, x.class, o.order)
					continue
				}
				ex.Fail("priority-violated", "picked %s (class %d) while %s (class %d), sent earlier, was waiting; order=%v", m.payload, m.class, x.payload, x.class, o.order)
			}
		}
	}
}

func c03Body(build func(w *World, o *ordLog)) func(ex *vsched.Exec) string {
	return c03BodyL(gen.LogLevelDisabled, build)
}

func c03BodyL(level gen.LogLevel, build func(w *World, o *ordLog)) func(ex *vsched.Exec) string {
	return nodeBodyL(level, func(w *World) {
		o := &ordLog{msgs: map[string]*ordMsg{}}
		build(w, o)
		w.Check = func() {
			o.check(w.ex)
			w.Out("order=%s", strings.Join(o.order, ","))
		}
	})
}

// ordProbe spawns the receiver: it logs begin/end stamps of every callback; "park" blocks on g.
func ordProbe(w *World, o *ordLog, g *vsched.Gate, trap bool, opts gen.ProcessOptions) gen.PID {
	return w.spawnProbe("R", probeCfg{trap: trap, onMsg: func(p *probe, from gen.PID, m any) error {
		name := msgName(m)
		if name == "park" {
			g.Wait()
			return nil
		}
		o.order = append(o.order, name)
		o.begin = append(o.begin, o.tick())
		vsched.Point(vsched.OpUser, 3)
		o.end = append(o.end, o.tick())
		return nil
	}}, opts)
}

func init() {
	// parked receiver, two senders with two messages each, every priority assignment
	letters := []byte{'N', 'H', 'M'}
	for _, a1 := range letters {
		for _, a2 := range letters {
			for _, b1 := range letters {
				for _, b2 := range letters {
					asg := string([]byte{a1, a2, b1, b2})
					harn.Register(harn.Scenario{Property: "C03", Name: "parked-" + asg, Run: func(c *harn.Ctx) *harn.Result {
						return harn.Explore(c, harn.Sched{QuickBound: 1, ThoroughBound: 2, Preempt: true, Cache: true, Body: c03Body(func(w *World, o *ordLog) {
							g := &vsched.Gate{}
							pid := ordProbe(w, o, g, false, gen.ProcessOptions{})
							w.Setup("park", func() { w.n.Send(pid, "park") })
							send := func(s string, seq int, l byte) {
								pl := fmt.Sprintf("%s%d%c", s, seq, l)
								o.send(pl, s, seq, classOf(prioOf(l)), func() error { return w.n.SendWithPriority(pid, pl, prioOf(l)) })
							}
							w.ex.Thread("S1", func() { send("a", 1, asg[0]); send("a", 2, asg[1]) })
							w.ex.Thread("S2", func() { send("b", 1, asg[2]); send("b", 2, asg[3]) })
							w.ex.ThreadLow("G", func() { g.Open() })
						})})
					}})
				}
			}
		}
	}
	// free-running receiver: FIFO and class oracle under every interleaving of enqueueing and handling
	for _, asg := range []string{"NNNNN", "NNHNH", "HNMNN", "NHNMH"} {
		asg := asg
		harn.Register(harn.Scenario{Property: "C03", Name: "free-" + asg, Run: func(c *harn.Ctx) *harn.Result {
			return harn.Explore(c, harn.Sched{QuickBound: 2, ThoroughBound: 3, Preempt: true, Cache: true, Body: c03Body(func(w *World, o *ordLog) {
				pid := ordProbe(w, o, &vsched.Gate{}, false, gen.ProcessOptions{})
				send := func(s string, seq int, l byte) {
					pl := fmt.Sprintf("%s%d%c", s, seq, l)
					o.send(pl, s, seq, classOf(prioOf(l)), func() error { return w.n.SendWithPriority(pid, pl, prioOf(l)) })
				}
				w.ex.Thread("S1", func() { send("a", 1, asg[0]); send("a", 2, asg[1]); send("a", 3, asg[2]) })
				w.ex.Thread("S2", func() { send("b", 1, asg[3]); send("b", 2, asg[4]) })
			})})
		}})
	}
	// one sender mixing addressing modes (pid, name, alias): FIFO whichever mode is used
	harn.Register(harn.Scenario{Property: "C03", Name: "addressing-mix", Run: func(c *harn.Ctx) *harn.Result {
		return harn.Explore(c, harn.Sched{QuickBound: 2, ThoroughBound: 3, Preempt: true, Cache: true, Body: c03Body(func(w *World, o *ordLog) {
			r := &rec{name: "R"}
			w.recs["R"] = r
			var al gen.Alias
			w.Setup("spawnR", func() {
				pid, err := w.n.SpawnRegister("rname", func() gen.ProcessBehavior { return &probe{} }, gen.ProcessOptions{}, probeCfg{rec: r, onMsg: func(p *probe, from gen.PID, m any) error {
					o.order = append(o.order, msgName(m))
					o.begin = append(o.begin, o.tick())
					vsched.Point(vsched.OpUser, 3)
					o.end = append(o.end, o.tick())
					return nil
				}})
				if err != nil {
					panic(err)
				}
				w.pids["R"] = pid
			})
			w.Do("R", func(p *probe) error { al, _ = p.CreateAlias(); return nil })
			pid := w.pids["R"]
			w.ex.Thread("S1", func() {
				o.send("a1", "a", 1, 1, func() error { return w.n.Send(pid, "a1") })
				o.send("a2", "a", 2, 1, func() error { return w.n.Send(gen.Atom("rname"), "a2") })
				o.send("a3", "a", 3, 1, func() error { return w.n.Send(al, "a3") })
				o.send("a4", "a", 4, 1, func() error { return w.n.Send(gen.ProcessID{Name: "rname", Node: w.n.Name()}, "a4") })
			})
			w.ex.Thread("S2", func() { o.send("b1", "b", 1, 1, func() error { return w.n.Send(al, "b1") }) })
		})})
	}})
	// exit signals (trapped), down notifications and Max/High/Normal messages while parked
	harn.Register(harn.Scenario{Property: "C03", Name: "parked-exit-down", Run: func(c *harn.Ctx) *harn.Result {
		return harn.Explore(c, harn.Sched{QuickBound: 1, ThoroughBound: 2, Preempt: true, Cache: true, Body: c03Body(func(w *World, o *ordLog) {
			g := &vsched.Gate{}
			pid := ordProbe(w, o, g, true, gen.ProcessOptions{})
			tpid := w.spawnProbe("T", probeCfg{}, gen.ProcessOptions{})
			w.Do("R", func(p *probe) error { return p.MonitorPID(tpid) })
			w.spawnProbe("Z", probeCfg{onMsg: func(p *probe, from gen.PID, m any) error {
				o.send("exitpid(X)", "z", 1, 3, func() error { return p.SendExit(pid, errX) })
				return nil
			}}, gen.ProcessOptions{})
			w.Setup("park", func() { w.n.Send(pid, "park") })
			w.ex.Thread("S1", func() {
				o.send("a1", "a", 1, 1, func() error { return w.n.Send(pid, "a1") })
				o.send("a2", "a", 2, 2, func() error { return w.n.SendWithPriority(pid, "a2", gen.MessagePriorityHigh) })
			})
			w.ex.Thread("Z", func() { w.n.Send(w.pids["Z"], "go") })
			w.ex.Thread("K", func() {
				o.send("downpid(kill)", "k", 1, 2, func() error { return w.n.Kill(tpid) })
			})
			w.ex.ThreadLow("G", func() { g.Open() })
		})})
	}})
	// a sender PROCESS mixing plain sends, prioritised sends and a failing send to one receiver
	harn.Register(harn.Scenario{Property: "C03", Name: "process-sender-mix", Run: func(c *harn.Ctx) *harn.Result {
		return harn.Explore(c, harn.Sched{QuickBound: 2, ThoroughBound: 3, Preempt: true, Cache: true, Body: c03Body(func(w *World, o *ordLog) {
			pid := ordProbe(w, o, &vsched.Gate{}, false, gen.ProcessOptions{})
			bogus := gen.PID{Node: w.n.Name(), ID: 999999, Creation: w.n.Creation()}
			w.spawnProbe("P", probeCfg{onMsg: func(p *probe, from gen.PID, m any) error {
				o.send("a1", "a", 1, 1, func() error { return p.Send(pid, "a1") })
				o.send("a2", "a", 2, 2, func() error { return p.SendWithPriority(pid, "a2", gen.MessagePriorityHigh) })
				p.SendWithPriority(bogus, "x", gen.MessagePriorityMax) // fails: unknown process
				o.send("a3", "a", 3, 1, func() error { return p.Send(pid, "a3") })
				p.SendWithPriority(bogus, "y", gen.MessagePriorityHigh)
				o.send("a4", "a", 4, 3, func() error { return p.SendWithPriority(pid, "a4", gen.MessagePriorityMax) })
				o.send("a5", "a", 5, 1, func() error { return p.SendPID(pid, "a5") })
				return nil
			}}, gen.ProcessOptions{})
			w.ex.Thread("S1", func() { w.n.Send(w.pids["P"], "go") })
			w.ex.Thread("S2", func() { o.send("b1", "b", 1, 1, func() error { return w.n.Send(pid, "b1") }) })
		})})
	}})
	// a sender process whose own SendPriority option is High: everything it sends is one class
	harn.Register(harn.Scenario{Property: "C03", Name: "process-sender-high", Run: func(c *harn.Ctx) *harn.Result {
		return harn.Explore(c, harn.Sched{QuickBound: 2, ThoroughBound: 3, Preempt: true, Cache: true, Body: c03Body(func(w *World, o *ordLog) {
			pid := ordProbe(w, o, &vsched.Gate{}, false, gen.ProcessOptions{})
			w.spawnProbe("P", probeCfg{onMsg: func(p *probe, from gen.PID, m any) error {
				o.send("a1", "a", 1, 2, func() error { return p.Send(pid, "a1") })
				o.send("a2", "a", 2, 2, func() error { return p.SendPID(pid, "a2") })
				o.send("a3", "a", 3, 1, func() error { return p.SendWithPriority(pid, "a3", gen.MessagePriorityNormal) })
				o.send("a4", "a", 4, 2, func() error { return p.Send(pid, "a4") })
				return nil
			}}, gen.ProcessOptions{SendPriority: gen.MessagePriorityHigh})
			w.ex.Thread("S1", func() { w.n.Send(w.pids["P"], "go") })
			w.ex.Thread("S2", func() { o.send("b1", "b", 1, 1, func() error { return w.n.Send(pid, "b1") }) })
		})})
	}})
	// the receiver is also a logger: log messages are the lowest class
	harn.Register(harn.Scenario{Property: "C03", Name: "logger-lowest-class", Run: func(c *harn.Ctx) *harn.Result {
		return harn.Explore(c, harn.Sched{QuickBound: 2, ThoroughBound: 3, Preempt: true, Cache: true, Body: c03BodyL(gen.LogLevelWarning, func(w *World, o *ordLog) {
			stamp := func(name string) {
				o.order = append(o.order, name)
				o.begin = append(o.begin, o.tick())
				vsched.Point(vsched.OpUser, 3)
				o.end = append(o.end, o.tick())
			}
			pid := w.spawnProbe("R", probeCfg{
				onMsg: func(p *probe, from gen.PID, m any) error { stamp(msgName(m)); return nil },
				onLog: func(p *probe, m gen.MessageLog) error { stamp(fmt.Sprintf(m.Format, m.Args...)); return nil },
			}, gen.ProcessOptions{})
			if err := w.n.LoggerAddPID(pid, "vlogger", gen.LogLevelWarning); err != nil {
				panic(err)
			}
			w.ex.Thread("L", func() {
				for i := 1; i <= 3; i++ {
					pl := fmt.Sprintf("l%d", i)
					o.send(pl, "l", i, 0, func() error { w.n.Log().Warning(pl); return nil })
				}
			})
			w.ex.Thread("S1", func() {
				o.send("a1", "a", 1, 1, func() error { return w.n.Send(pid, "a1") })
				o.send("a2", "a", 2, 2, func() error { return w.n.SendWithPriority(pid, "a2", gen.MessagePriorityHigh) })
			})
		})})
	}})
	// meta process: regular messages are FIFO per sender (the meta mailbox has no priority classes
	// for regular messages); an exit signal (system queue) overtakes waiting regular messages
	harn.Register(harn.Scenario{Property: "C03", Name: "meta-parked-fifo-exit", Run: func(c *harn.Ctx) *harn.Result {
		return harn.Explore(c, harn.Sched{QuickBound: 2, ThoroughBound: 3, Preempt: false, Cache: true, Body: c03Body(func(w *World, o *ordLog) {
			g := &vsched.Gate{}
			id, mp := w.spawnMeta("R", gen.MetaOptions{})
			stamp := func(name string) {
				o.order = append(o.order, name)
				o.begin = append(o.begin, o.tick())
				vsched.Point(vsched.OpUser, 3)
				o.end = append(o.end, o.tick())
			}
			mp.onMsg = func(m *metaProbe, from gen.PID, msg any) error {
				name := msgName(msg)
				if name == "park" {
					g.Wait()
					o.end = append(o.end[:0], o.tick())
					return nil
				}
				stamp(name)
				return nil
			}
			mp.onTerm = func(reason error) { stamp("exit(" + reason.Error() + ")") }
			w.Setup("park", func() { w.n.Send(id, "park") })
			o.order = append(o.order, "park")
			o.begin = append(o.begin, 0)
			o.end = append(o.end, 0)
			w.ex.Thread("S1", func() {
				o.send("a1", "a", 1, 1, func() error { return w.n.Send(id, "a1") })
				o.send("a2", "a", 2, 1, func() error { return w.n.SendWithPriority(id, "a2", gen.MessagePriorityHigh) })
			})
			w.ex.Thread("S2", func() { o.send("b1", "b", 1, 1, func() error { return w.n.Send(id, "b1") }) })
			w.ex.Thread("Z", func() {
				o.send("exit(X)", "z", 1, 2, func() error {
					var err error
					done := &vsched.Gate{}
					w.n.Send(w.pids["PR"], doMsg{func(p *probe) error { err = p.SendExitMeta(id, errX); done.Open(); return nil }})
					done.Wait()
					return err
				})
			})
			w.ex.ThreadLow("G", func() { g.Open() })
		})})
	}})
}

// a pool is a process with a pick loop of its own: Normal messages are forwarded to workers, higher classes are handled
// by the pool itself. A High message whose send has returned is taken before any further Normal message is picked:
// between the moment the send returned and the moment the pool handles it, at most the one forward that was in
// progress can complete. (The worker is parked, so "forwarded so far" = length of its mailbox.)
func init() {
	harn.Register(harn.Scenario{Property: "C03", Name: "pool-high-behind-normal-backlog", Run: func(c *harn.Ctx) *harn.Result {
		return harn.Explore(c, harn.Sched{QuickBound: 2, ThoroughBound: 3, Preempt: true, Cache: true, Body: nodeBody(func(w *World) {
			g := &vsched.Gate{}
			forwarded := func() int64 {
				info, err := w.n.ProcessInfo(w.pids["W1"])
				if err != nil {
					return -1
				}
				return info.MailboxQueues.Main
			}
			atHandle := int64(-1)
			var dbg []string
			_, pool, _ := w.spawnPool(poolCfg{size: 1, gates: map[int]*vsched.Gate{1: g}, onPoolMsg: func(p *poolB, from gen.PID, m any) error {
				if m == "H" {
					atHandle = forwarded()
					dbg = append(dbg, fmt.Sprintf("pool handles H fwd=%d", atHandle))
				}
				return nil
			}})
			w.Setup("park", func() { w.n.Send(pool, "park") }) // the only worker takes it and stays in the callback
			atSent := int64(-1)
			refused, sDone := false, false
			w.ex.Thread("S", func() {
				for _, m := range []string{"n1", "n2", "n3"} {
					err := w.n.Send(pool, m)
					dbg = append(dbg, fmt.Sprintf("sent %s err=%v fwd=%d", m, err, forwarded()))
				}
				if err := w.n.SendWithPriority(pool, "H", gen.MessagePriorityHigh); err != nil {
					refused = true
				} else {
					atSent = forwarded()
					dbg = append(dbg, fmt.Sprintf("sent H fwd=%d", atSent))
				}
				sDone = true
			})
			// the worker is released only once the sender is done and the High message has been handled (or was refused): until then its mailbox
			// length is exactly the number of forwards
			w.ex.Thread("G", func() {
				vsched.Block(vsched.OpUser, 0, func() bool { return sDone && (atHandle >= 0 || refused) })
				g.Open()
			})
			w.Check = func() {
				if atSent >= 0 && atHandle >= 0 && atHandle > atSent+1 {
					w.ex.Fail("priority-violated", "a pool with a backlog of Normal messages: %d of them had been forwarded when the send of the High message returned, %d when the pool handled it - the pool picked %d Normal messages while a High one was waiting (at most the one forward in progress may complete); %v", atSent, atHandle, atHandle-atSent, dbg)
				}
				if atSent >= 0 && atHandle < 0 {
					w.ex.Fail("lost-message", "the High message was accepted by the pool and never handled")
				}
				w.Out("sent=%d handled=%d dbg=%v", atSent, atHandle, dbg)
			}
		})})
	}})
}
