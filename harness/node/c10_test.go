//go:build verif

package node

import (
	"fmt"
	"sort"
	"strings"

	"ergo.services/ergo/act"
	"ergo.services/ergo/gen"
	"verif.local/vsched"
	"verif.local/vsched/harn"
)

// C10 — no orphans: supervisors, pools, applications and the node take their processes down.

type tree struct {
	w         *World
	all       map[string][]gen.PID // every pid ever started under a name
	children  map[string][]string  // owner name -> member names
	failInit  map[string]bool      // members whose Init fails
	selfFail  map[string]int       // member -> incarnation (1-based) that sends itself "fail" from Init and so dies at once
	factories map[string]gen.ProcessFactory
	childOpts map[string]gen.ProcessOptions // member -> process options written into its child spec
	termOf    map[string][]string           // supervisor name -> reasons its Terminate callback was given
	early     []string                      // owners whose Terminate callback ran for a shutdown while something they started was alive
}

func newTree(w *World) *tree {
	return &tree{w: w, all: map[string][]gen.PID{}, children: map[string][]string{}, failInit: map[string]bool{}, selfFail: map[string]int{}, childOpts: map[string]gen.ProcessOptions{}, termOf: map[string][]string{}}
}

func (t *tree) record(name string, pid gen.PID) {
	t.all[name] = append(t.all[name], pid)
	t.w.pids[name] = pid
}

func (t *tree) anyAlive(name string) bool {
	for _, pid := range t.all[name] {
		if _, err := t.w.n.ProcessInfo(pid); err == nil {
			return true
		}
	}
	return false
}

func (t *tree) descendants(owner string) []string {
	var out []string
	for _, c := range t.children[owner] {
		out = append(out, c)
		out = append(out, t.descendants(c)...)
	}
	return out
}

// worker: a probe that records its pid under a name
func (t *tree) worker(name string) gen.ProcessFactory {
	return func() gen.ProcessBehavior {
		r := t.w.recs[name]
		if r == nil {
			r = &rec{name: name}
			t.w.recs[name] = r
		}
		return &probe{cfg: probeCfg{rec: r, onMsg: failer, onInit: func(p *probe) error {
			t.record(name, p.PID())
			if t.failInit[name] {
				return errE
			}
			if k := t.selfFail[name]; k > 0 && len(t.all[name]) == k {
				p.Send(p.PID(), "fail")
			}
			return nil
		}}}
	}
}

type supB struct {
	act.Supervisor
	t    *tree
	name string
	spec act.SupervisorSpec
}

func (s *supB) Init(args ...any) (act.SupervisorSpec, error) {
	s.t.record(s.name, s.PID())
	if s.t.failInit[s.name] {
		return s.spec, errE
	}
	return s.spec, nil
}

// startChildMsg makes a supervisor start a child of the given spec (simple-one-for-one starts nothing by itself)
type startChildMsg struct{ name string }

func (s *supB) HandleMessage(from gen.PID, m any) error {
	if m == "end-normally" { // a callback of the supervisor ends it with reason 'normal'
		return gen.TerminateReasonNormal
	}
	if x, ok := m.(startChildMsg); ok {
		if err := s.StartChild(gen.Atom(x.name)); err != nil {
			panic(err)
		}
	}
	return nil
}

// Terminate: a supervisor that ends because it was asked to shut down has stopped everything it started by then
func (s *supB) Terminate(reason error) {
	s.t.termOf[s.name] = append(s.t.termOf[s.name], reason.Error())
	if reason != gen.TerminateReasonShutdown {
		return
	}
	// (its own children: those of a child that was killed meanwhile follow on their own)
	for _, d := range s.t.children[s.name] {
		if s.t.anyAlive(d) {
			s.t.early = append(s.t.early, fmt.Sprintf("%s terminated (%v) while %s, which it started, was still running", s.name, reason, d))
		}
	}
}

// sup builds a supervisor factory; members are name -> factory in order
func (t *tree) sup(name string, typ act.SupervisorType, members ...string) gen.ProcessFactory {
	t.children[name] = members
	return func() gen.ProcessBehavior {
		spec := act.SupervisorSpec{Type: typ}
		spec.Restart.Strategy = act.SupervisorStrategyPermanent
		spec.Restart.Intensity = 100
		for _, m := range members {
			f := t.factories[m]
			if f == nil {
				f = t.worker(m)
			}
			spec.Children = append(spec.Children, act.SupervisorChildSpec{Name: gen.Atom(m), Factory: f, Options: t.childOpts[m]})
		}
		return &supB{t: t, name: name, spec: spec}
	}
}

type poolC10 struct {
	act.Pool
	t    *tree
	name string
	n    int
}

func (p *poolC10) Init(args ...any) (act.PoolOptions, error) {
	p.t.record(p.name, p.PID())
	k := 0
	return act.PoolOptions{PoolSize: int64(p.n), WorkerFactory: func() gen.ProcessBehavior {
		k++
		return p.t.worker(fmt.Sprintf("%s.w%d", p.name, k))()
	}}, nil
}

func (t *tree) pool(name string, n int) gen.ProcessFactory {
	for i := 1; i <= n+2; i++ {
		t.children[name] = append(t.children[name], fmt.Sprintf("%s.w%d", name, i))
	}
	return func() gen.ProcessBehavior { return &poolC10{t: t, name: name, n: n} }
}

// orphan oracle
func (t *tree) check() {
	w := t.w
	var owners []string
	for o := range t.children {
		owners = append(owners, o)
	}
	sort.Strings(owners)
	for _, e := range t.early {
		w.ex.Fail("owner-ended-before-its-children", "%s", e)
	}
	for _, o := range owners {
		if len(t.all[o]) == 0 || t.anyAlive(o) {
			continue
		}
		for _, d := range t.descendants(o) {
			if t.anyAlive(d) {
				w.ex.Fail("orphan", "%s has terminated but %s, which it started, keeps running", o, d)
			}
		}
	}
	var st []string
	var names []string
	for n := range t.all {
		names = append(names, n)
	}
	sort.Strings(names)
	for _, n := range names {
		st = append(st, fmt.Sprintf("%s=%v", n, t.anyAlive(n)))
	}
	w.Out("%s", strings.Join(st, " "))
}

func c10Scenario(name string, qb, tb int, build func(w *World, t *tree)) {
	harn.Register(harn.Scenario{Property: "C10", Name: name, Run: func(c *harn.Ctx) *harn.Result {
		return harn.Explore(c, harn.Sched{QuickBound: qb, ThoroughBound: tb, Preempt: false, Cache: true, HorizonS: 30, Body: nodeBody(func(w *World) {
			t := newTree(w)
			t.factories = map[string]gen.ProcessFactory{}
			build(w, t)
			prev := w.Check
			w.Check = func() {
				if prev != nil {
					prev()
				}
				t.check()
			}
		})})
	}})
}

func init() {
	types := map[string]act.SupervisorType{"ofo": act.SupervisorTypeOneForOne, "afo": act.SupervisorTypeAllForOne, "rfo": act.SupervisorTypeRestForOne}
	victims := []string{"S", "w1", "w2"}
	for tn, typ := range types {
		tn, typ := tn, typ
		// steady state, restart in progress, shutdown in progress: one fault at every point
		for _, activity := range []string{"steady", "restart", "shutdown"} {
			for _, v := range victims {
				activity, v := activity, v
				c10Scenario(fmt.Sprintf("sup-%s-%s-kill-%s", tn, activity, v), 1, 2, func(w *World, t *tree) {
					f := t.sup("S", typ, "w1", "w2")
					w.Setup("start", func() {
						if _, err := w.n.Spawn(f, gen.ProcessOptions{}); err != nil {
							panic(err)
						}
					})
					switch activity {
					case "restart":
						w.ex.Thread("A", func() { w.n.Send(w.pids["w1"], "fail") })
					case "shutdown":
						w.ex.Thread("A", func() { w.n.SendExit(w.pids["S"], gen.TerminateReasonShutdown) })
					}
					w.ex.ThreadLow("F", func() { w.n.Kill(w.pids[v]) })
				})
			}
		}
	}
	// child specs that carry link options of their own: whatever they say, the children go down with a killed supervisor
	optVariants := map[string]gen.ProcessOptions{"linkchild": {LinkChild: true}, "linkparent": {LinkParent: true}, "both": {LinkChild: true, LinkParent: true}}
	for tn, typ := range types {
		for on, opt := range optVariants {
			tn, typ, on, opt := tn, typ, on, opt
			c10Scenario(fmt.Sprintf("sup-%s-childspec-%s-kill-S", tn, on), 1, 2, func(w *World, t *tree) {
				t.childOpts["w1"] = opt
				f := t.sup("S", typ, "w1", "w2")
				w.Setup("start", func() {
					if _, err := w.n.Spawn(f, gen.ProcessOptions{}); err != nil {
						panic(err)
					}
				})
				w.ex.Thread("F", func() { w.n.Kill(w.pids["S"]) })
			})
		}
	}
	// a graceful shutdown while one child is slow to end (busy in a callback): the supervisor ends after the last of them,
	// for every type including simple-one-for-one (two instances of one spec and one of another)
	allTypes := map[string]act.SupervisorType{"ofo": act.SupervisorTypeOneForOne, "afo": act.SupervisorTypeAllForOne, "rfo": act.SupervisorTypeRestForOne, "sofo": act.SupervisorTypeSimpleOneForOne}
	for tn, typ := range allTypes {
		for _, slow := range []string{"w1", "w2"} {
			tn, typ, slow := tn, typ, slow
			c10Scenario(fmt.Sprintf("sup-%s-shutdown-slow-child-%s", tn, slow), 1, 2, func(w *World, t *tree) {
				f := t.sup("S", typ, "w1", "w2")
				w.Setup("start", func() {
					if _, err := w.n.Spawn(f, gen.ProcessOptions{}); err != nil {
						panic(err)
					}
				})
				if typ == act.SupervisorTypeSimpleOneForOne {
					for _, m := range []string{"w1", "w2", "w2"} {
						m := m
						w.nsetup++
						w.Setup(fmt.Sprintf("startchild%d", w.nsetup), func() { w.n.Send(w.pids["S"], startChildMsg{m}) })
					}
				}
				g := &vsched.Gate{}
				w.Setup("park", func() { w.n.Send(w.pids[slow], g) })
				w.ex.Thread("A", func() { w.n.SendExit(w.pids["S"], gen.TerminateReasonShutdown) })
				w.ex.ThreadLow("G", func() { g.Open() })
				w.Check = func() {
					if t.anyAlive("S") {
						w.ex.Fail("shutdown-ignored", "the supervisor was told to shut down and is still running")
					}
				}
			})
		}
	}
	// the owner of a nested supervisor ends with reason 'normal' (one of its callbacks returns it): the nested
	// supervisor and what it started go too
	for tn, typ := range types {
		tn, typ := tn, typ
		c10Scenario(fmt.Sprintf("nested-%s-owner-ends-normally", tn), 1, 2, func(w *World, t *tree) {
			t.factories["S2"] = t.sup("S2", act.SupervisorTypeOneForOne, "w2")
			f := t.sup("S", typ, "w1", "S2")
			w.Setup("start", func() {
				if _, err := w.n.Spawn(f, gen.ProcessOptions{}); err != nil {
					panic(err)
				}
			})
			w.ex.Thread("A", func() { w.n.Send(w.pids["S"], "end-normally") })
			w.Check = func() {
				if t.anyAlive("S") {
					w.ex.Fail("shutdown-never-completes", "a callback of the supervisor returned 'normal'; at quiescence it is still running (nested supervisor alive=%v, its child alive=%v)", t.anyAlive("S2"), t.anyAlive("w2"))
				}
			}
		})
	}
	// a shutdown request reaches the supervisor at every point of an ongoing restart: it must still end, with all it started
	for tn, typ := range types {
		tn, typ := tn, typ
		c10Scenario(fmt.Sprintf("sup-%s-restart-then-shutdown", tn), 1, 2, func(w *World, t *tree) {
			f := t.sup("S", typ, "w1", "w2")
			w.Setup("start", func() {
				if _, err := w.n.Spawn(f, gen.ProcessOptions{}); err != nil {
					panic(err)
				}
			})
			w.ex.Thread("A", func() { w.n.Send(w.pids["w1"], "fail") })
			w.ex.ThreadLow("F", func() { w.n.SendExit(w.pids["S"], gen.TerminateReasonShutdown) })
			w.Check = func() {
				if t.anyAlive("S") {
					w.ex.Fail("shutdown-ignored", "the supervisor was told to shut down while it was restarting its children and is still running")
				}
			}
		})
	}
	// nested supervisors
	for _, v := range []string{"S", "S2", "w1", "w2"} {
		for _, activity := range []string{"steady", "shutdown"} {
			v, activity := v, activity
			c10Scenario(fmt.Sprintf("nested-%s-kill-%s", activity, v), 1, 2, func(w *World, t *tree) {
				t.factories["S2"] = t.sup("S2", act.SupervisorTypeOneForOne, "w2")
				f := t.sup("S", act.SupervisorTypeAllForOne, "w1", "S2")
				w.Setup("start", func() {
					if _, err := w.n.Spawn(f, gen.ProcessOptions{}); err != nil {
						panic(err)
					}
				})
				if activity == "shutdown" {
					w.ex.Thread("A", func() { w.n.SendExit(w.pids["S"], gen.TerminateReasonShutdown) })
				}
				w.ex.ThreadLow("F", func() { w.n.Kill(w.pids[v]) })
			})
		}
	}
	// start-up failures: the k-th member's Init fails => nothing of the tree keeps running
	for _, bad := range []string{"w1", "w2", "S2"} {
		bad := bad
		c10Scenario("startup-failure-"+bad, 1, 2, func(w *World, t *tree) {
			t.factories["S2"] = t.sup("S2", act.SupervisorTypeOneForOne, "w2")
			f := t.sup("S", act.SupervisorTypeOneForOne, "w1", "S2")
			t.failInit[bad] = true
			var err error
			w.ex.Thread("start", func() { _, err = w.n.Spawn(f, gen.ProcessOptions{}) })
			w.Check = func() {
				if err == nil {
					w.ex.Fail("startup-error-ignored", "member %s failed in Init but the supervisor tree started", bad)
				}
				for _, n := range []string{"S", "S2", "w1", "w2"} {
					if t.anyAlive(n) {
						w.ex.Fail("orphan", "start-up of the tree failed (%s) but %s keeps running", bad, n)
					}
				}
			}
		})
	}
	// pool: killed, shut down; a worker's Init fails during pool start
	for _, how := range []string{"kill", "shutdown"} {
		how := how
		c10Scenario("pool-"+how, 1, 2, func(w *World, t *tree) {
			f := t.pool("P", 2)
			w.Setup("start", func() {
				if _, err := w.n.Spawn(f, gen.ProcessOptions{}); err != nil {
					panic(err)
				}
			})
			w.ex.Thread("A", func() { w.n.Send(w.pids["P"], "m1"); w.n.Send(w.pids["P"], "m2") })
			w.ex.ThreadLow("F", func() {
				if how == "kill" {
					w.n.Kill(w.pids["P"])
				} else {
					w.n.SendExit(w.pids["P"], gen.TerminateReasonShutdown)
				}
			})
		})
	}
	c10Scenario("pool-worker-init-fails", 1, 2, func(w *World, t *tree) {
		f := t.pool("P", 2)
		t.failInit["P.w2"] = true
		var err error
		w.ex.Thread("start", func() { _, err = w.n.Spawn(f, gen.ProcessOptions{}) })
		w.Check = func() {
			if err == nil {
				w.ex.Fail("startup-error-ignored", "the second worker failed in Init but the pool started")
			}
			for _, n := range []string{"P", "P.w1", "P.w2"} {
				if t.anyAlive(n) {
					w.ex.Fail("orphan", "start of the pool failed but %s keeps running", n)
				}
			}
		}
	})
	// a worker died, a later dispatch replaced it: the replacement must go down with the pool too
	for _, how := range []string{"kill", "shutdown"} {
		how := how
		c10Scenario("pool-replacement-then-"+how, 1, 2, func(w *World, t *tree) {
			f := t.pool("P", 2)
			w.Setup("start", func() {
				if _, err := w.n.Spawn(f, gen.ProcessOptions{}); err != nil {
					panic(err)
				}
			})
			w.Setup("kill-w1", func() { w.n.Kill(w.pids["P.w1"]) })
			w.Setup("traffic", func() { w.n.Send(w.pids["P"], "m1"); w.n.Send(w.pids["P"], "m2"); w.n.Send(w.pids["P"], "m3") })
			w.ex.Thread("A", func() {
				if how == "kill" {
					w.n.Kill(w.pids["P"])
				} else {
					w.n.SendExit(w.pids["P"], gen.TerminateReasonShutdown)
				}
			})
			w.ex.Thread("B", func() { w.n.Send(w.pids["P"], "m4") })
			w.Check = func() {
				if len(t.all["P.w3"]) == 0 {
					w.ex.Fail("harness", "no replacement worker was spawned")
				}
			}
		})
	}
	// an application whose LAST member fails to start: the members started before it must not stay
	for _, nmem := range []int{2, 3} {
		nmem := nmem
		c10Scenario(fmt.Sprintf("app-start-failure-member%d", nmem), 1, 2, func(w *World, t *tree) {
			t.factories["S"] = t.sup("S", act.SupervisorTypeOneForOne, "w1")
			order := []string{}
			app := &appB{w: w, name: "app", mode: gen.ApplicationModeTemporary, order: &order}
			t.failInit["bad"] = true
			if _, err := w.n.ApplicationLoad(&c10app{appB: app, t: t, extra: nmem - 2, bad: true}); err != nil {
				panic(err)
			}
			var err error
			w.ex.Thread("start", func() { err = w.n.ApplicationStart("app", gen.ApplicationOptions{}) })
			w.Check = func() {
				if err == nil {
					w.ex.Fail("startup-error-ignored", "a member failed in Init but the application started")
				}
				for _, n := range []string{"S", "w1", "w2", "x1", "bad"} {
					if t.anyAlive(n) {
						w.ex.Fail("orphan", "the application failed to start but %s, started before the failing member, keeps running", n)
					}
				}
			}
		})
	}
	// application {S{w1}, w2}: stop / stop-force / member killed, one fault at every point
	for _, how := range []string{"stop", "stopforce"} {
		for _, v := range []string{"", "S", "w1", "w2"} {
			how, v := how, v
			name := "app-" + how
			if v != "" {
				name += "-kill-" + v
			}
			c10Scenario(name, 1, 2, func(w *World, t *tree) {
				t.factories["S"] = t.sup("S", act.SupervisorTypeOneForOne, "w1")
				order := []string{}
				app := &appB{w: w, name: "app", mode: gen.ApplicationModeTemporary, order: &order}
				app.members = nil
				if _, err := w.n.ApplicationLoad(&c10app{appB: app, t: t}); err != nil {
					panic(err)
				}
				w.Setup("start", func() {
					if err := w.n.ApplicationStart("app", gen.ApplicationOptions{}); err != nil {
						panic(err)
					}
				})
				var err error
				var atReturn []string
				ret := false
				w.ex.Thread("A", func() {
					if how == "stop" {
						err = w.n.ApplicationStop("app")
					} else {
						err = w.n.ApplicationStopForce("app")
					}
					// the moment the call returns: who is still there?
					if err == nil && how == "stop" { // the statement speaks of a graceful stop
						skip := map[string]bool{}
						if v != "" {
							// what hangs below a process that the fault thread KILLED is taken down
							// through links, not through the graceful stop: checked at quiescence only
							for _, d := range t.descendants(v) {
								skip[d] = true
							}
						}
						for _, n := range []string{"S", "w1", "w2"} {
							if t.anyAlive(n) && !skip[n] {
								atReturn = append(atReturn, n)
							}
						}
					}
					ret = true
				})
				if v != "" {
					w.ex.ThreadLow("F", func() { w.n.Kill(w.pids[v]) })
				}
				w.Check = func() {
					if !ret {
						w.ex.Fail("stop-hangs", "Application%s did not return", how)
						return
					}
					if len(atReturn) > 0 {
						w.ex.Fail("stop-ok-process-running", "Application%s returned nil while %v were still running", how, atReturn)
					}
				}
			})
		}
	}
	// the node is stopped: everything under it ends before Stop returns
	for _, v := range []string{"", "S", "w1", "free"} {
		v := v
		name := "node-stop"
		if v != "" {
			name += "-kill-" + v
		}
		tb := 2
		c10Scenario(name, 1, tb, func(w *World, t *tree) {
			f := t.sup("S", act.SupervisorTypeOneForOne, "w1", "w2")
			w.Setup("start", func() {
				if _, err := w.n.Spawn(f, gen.ProcessOptions{}); err != nil {
					panic(err)
				}
				if _, err := w.n.Spawn(t.worker("free"), gen.ProcessOptions{}); err != nil {
					panic(err)
				}
			})
			ret := false
			var atReturn []string
			w.ex.Thread("A", func() {
				w.n.Stop()
				for _, n := range []string{"free", "w1", "w2", "S"} {
					for _, pid := range t.all[n] {
						if _, ok := w.n.processes.Load(pid); ok {
							atReturn = append(atReturn, n)
						}
					}
				}
				ret = true
			})
			if v != "" {
				w.ex.ThreadLow("F", func() { w.n.Kill(w.pids[v]) })
			}
			w.Check = func() {
				if !ret {
					w.ex.Fail("stop-hangs", "Node.Stop did not return")
					return
				}
				if len(atReturn) > 0 {
					w.ex.Fail("stop-ok-process-running", "Node.Stop returned while %v had not terminated", atReturn)
				}
			}
		})
	}
	// a graceful node stop reaches every process, also one that traps exits and was spawned (unlinked) by another process
	c10Scenario("node-stop-trapping-grandchild", 1, 2, func(w *World, t *tree) {
		w.spawnProbe("PARENT", probeCfg{}, gen.ProcessOptions{})
		w.Do("PARENT", func(p *probe) error {
			r := &rec{name: "TRAPPER"}
			w.recs["TRAPPER"] = r
			pid, err := p.Spawn(func() gen.ProcessBehavior { return &probe{} }, gen.ProcessOptions{}, probeCfg{rec: r, trap: true})
			if err != nil {
				panic(err)
			}
			w.pids["TRAPPER"] = pid
			return nil
		})
		ret := false
		var atReturn []string
		w.ex.Thread("A", func() {
			w.n.Stop()
			for _, n := range []string{"PARENT", "TRAPPER"} {
				if _, ok := w.n.processes.Load(w.pids[n]); ok {
					atReturn = append(atReturn, n)
				}
			}
			ret = true
		})
		w.Check = func() {
			if !ret {
				w.ex.Fail("stop-hangs", "Node.Stop did not return (a process that traps exit signals and whose parent is another process is still running: %v)", w.alive("TRAPPER"))
				return
			}
			if len(atReturn) > 0 {
				w.ex.Fail("stop-ok-process-running", "Node.Stop returned while %v had not terminated", atReturn)
			}
		}
	})
}

// application whose members are a supervisor and a worker of a tree
type c10app struct {
	*appB
	t     *tree
	extra int  // additional plain members
	bad   bool // append a member whose Init fails
}

func (a *c10app) Load(node gen.Node, args ...any) (gen.ApplicationSpec, error) {
	spec := gen.ApplicationSpec{Name: a.name, Mode: a.mode}
	spec.Group = []gen.ApplicationMemberSpec{
		{Name: "S", Factory: a.t.factories["S"]},
		{Name: "w2", Factory: a.t.worker("w2")},
	}
	if a.bad {
		spec.Group = spec.Group[:1]
		if a.extra > 0 {
			spec.Group = append(spec.Group, gen.ApplicationMemberSpec{Name: "x1", Factory: a.t.worker("x1")})
		}
		spec.Group = append(spec.Group, gen.ApplicationMemberSpec{Name: "bad", Factory: a.t.worker("bad")})
	}
	return spec, nil
}
