//go:build verif

package node

import (
	"bytes"
	"compress/gzip"
	"compress/lzw"
	"compress/zlib"
	"encoding/binary"
	"encoding/hex"
	"fmt"
	"os"
	"runtime"
	"strconv"

	"ergo.services/ergo/gen"
	"ergo.services/ergo/lib"
	"ergo.services/ergo/net/handshake"
	"verif.local/vsched"
	"verif.local/vsched/harn"
	"verif.local/vsched/vconn"
	vsync "verif.local/vsched/vsync"
)

// C16 — hostile input against the frame parser of a live connection: the offending connection may
// close; the node, a second connection and the local processes must be unaffected.

func c16announce(i int, desc string) {
	if p := os.Getenv("VERIF_PROGRESS"); p != "" {
		os.WriteFile(p, []byte(fmt.Sprintf("%d %s\n", i, desc)), 0o644)
	}
}

func standaloneConn(w *World, peer gen.Atom, id string) (*vconn.Conn, *vconn.Conn) {
	nb := w.n
	ca, cb := vconn.Pair(string(peer)+"-a", string(peer)+"-b")
	res := gen.HandshakeResult{ConnectionID: id, Peer: peer, PeerCreation: nb.creation, PeerFlags: nb.network.flags, NodeFlags: nb.network.flags,
		Custom: handshake.ConnectionOptions{PoolSize: 1,
			EncodeAtomCache: &vsync.Map{}, EncodeRegCache: &vsync.Map{}, EncodeErrCache: &vsync.Map{},
			DecodeAtomCache: &vsync.Map{}, DecodeRegCache: &vsync.Map{}, DecodeErrCache: &vsync.Map{}}}
	w.nsetup++
	w.Setup(fmt.Sprintf("conn%d", w.nsetup), func() {
		pc, err := nb.network.defaultProto.NewConnection(nb, res, createLog(gen.LogLevelDisabled, nb.dolog))
		if err != nil {
			panic(err)
		}
		nb.network.registerConnection(res.Peer, pc)
		pc.Join(cb, res.ConnectionID, nil, nil)
		vsched.Go(func() { nb.network.serve(nb.network.defaultProto, pc, nil) })
	})
	return ca, cb
}

func init() {
	for shard := 0; shard < 4; shard++ {
		shard := shard
		harn.Register(harn.Scenario{Property: "C16", Name: fmt.Sprintf("frames-hostile-%d", shard), Run: func(c *harn.Ctx) *harn.Result {
			r := harn.NewResult("enum")
			frames := recordFrames([]string{"m1", "m2", "m3"})
			if len(frames) != 3 {
				r.Fail("harness", "expected 3 recorded frames, got %d", len(frames))
				return r
			}
			valid := frames[0]
			// hostile inputs
			var inputs [][]byte
			hdr := func(l uint32, order, typ byte, body int) []byte {
				b := make([]byte, 8+body)
				b[0], b[1] = 78, 1
				binary.BigEndian.PutUint32(b[2:6], l)
				b[6], b[7] = order, typ
				return b
			}
			for l := uint32(0); l <= 9; l++ {
				inputs = append(inputs, hdr(l, 1, 199, 0), hdr(l, 0, 101, 8))
			}
			for _, m := range []byte{0, 77, 79, 255} {
				x := append([]byte{}, valid...)
				x[0] = m
				inputs = append(inputs, x)
				y := append([]byte{}, valid...)
				y[1] = m
				inputs = append(inputs, y)
			}
			for n := 0; n < len(valid); n++ {
				inputs = append(inputs, valid[:n])
			}
			for pos := 0; pos < len(valid); pos++ {
				for _, v := range []byte{0, 0xff, valid[pos] + 1, valid[pos] - 1} {
					if v == valid[pos] {
						continue
					}
					x := append([]byte{}, valid...)
					x[pos] = v
					inputs = append(inputs, x)
				}
			}
			for typ := 0; typ < 256; typ++ {
				for _, body := range []int{0, 1, 9, 17, 25, 41, 60} {
					inputs = append(inputs, hdr(uint32(8+body), 1, byte(typ), body))
				}
			}
			// compressed envelope (type 200) declaring a large unpacked size, for each algorithm id
			for algo := 0; algo < 8; algo++ {
				for _, sz := range []uint32{0, 1, 1 << 16, 1 << 20} {
					b := hdr(8+1+4+8, 1, 200, 1+4+8)
					b[8] = byte(algo)
					binary.BigEndian.PutUint32(b[9:13], sz)
					inputs = append(inputs, b)
				}
			}
			for _, l := range []uint32{1 << 16, 1 << 24, 1<<32 - 1} {
				inputs = append(inputs, hdr(l, 1, 101, 40))
			}
			// a VALID compressed stream of a few bytes inside an envelope that declares a huge unpacked size
			for _, algo := range []gen.CompressionType{gen.CompressionTypeGZIP, gen.CompressionTypeZLIB, gen.CompressionTypeLZW} {
				var zb bytes.Buffer
				switch algo {
				case gen.CompressionTypeGZIP:
					zw := gzip.NewWriter(&zb)
					zw.Write([]byte("tiny"))
					zw.Close()
				case gen.CompressionTypeZLIB:
					zw := zlib.NewWriter(&zb)
					zw.Write([]byte("tiny"))
					zw.Close()
				default:
					zw := lzw.NewWriter(&zb, lzw.LSB, 8)
					zw.Write([]byte("tiny"))
					zw.Close()
				}
				for _, sz := range []uint32{0, 1, 3, 4, 5, 1 << 20, 1 << 26, 1 << 28, 1 << 30, 1<<32 - 1} { // less, exactly, more than the stream yields
					body := 1 + 4 + zb.Len()
					b := hdr(uint32(8+body), 1, 200, body)
					b[8] = algo.ID()
					binary.BigEndian.PutUint32(b[9:13], sz)
					copy(b[13:], zb.Bytes())
					inputs = append(inputs, b)
				}
			}
			resume, _ := strconv.Atoi(os.Getenv("VERIF_RESUME"))
			var ms runtime.MemStats
			for idx, in := range inputs {
				if idx%4 != shard || idx < resume {
					continue
				}
				c16announce(idx, hex.EncodeToString(in[:minI(len(in), 40)]))
				runtime.ReadMemStats(&ms)
				before := ms.TotalAlloc
				fails, out := vsched.RunOnce(20, func(ex *vsched.Exec) string {
					nb := startNetNode("b@localhost", netOpts{})
					w := &World{ex: ex, n: nb, recs: map[string]*rec{}, pids: map[string]gen.PID{}, tag: "B-"}
					w.spawnProbe("R", probeCfg{}, gen.ProcessOptions{})
					w.spawnProbe("LOCAL", probeCfg{}, gen.ProcessOptions{})
					bad, _ := standaloneConn(w, "a@localhost", "bad")
					good, _ := standaloneConn(w, "c@localhost", "good")
					ex.Thread("HOSTILE", func() {
						bad.Write(in)
						bad.Close()
					})
					ex.Run()
					for _, d := range ex.Deadlocked {
						ex.Fail("deadlock", "thread %s blocked forever after the hostile frame", d)
					}
					// the healthy connection still delivers, local processes still answer
					w.Setup("after", func() { good.Write(frames[2]) })
					var callErr error
					var reply any
					w.spawnProbe("CALLER", probeCfg{onMsg: func(p *probe, from gen.PID, m any) error {
						reply, callErr = p.CallWithTimeout(w.pids["LOCAL"], "ping", 1)
						return nil
					}}, gen.ProcessOptions{})
					w.Setup("call", func() { nb.Send(w.pids["CALLER"], "go") })
					got := handled(w.recs["R"], "M:")
					if count(got, "m3") != 1 {
						ex.Fail("other-connection-affected", "after the hostile frame a valid frame on ANOTHER connection was handled %d times (receiver log %v)", count(got, "m3"), got)
					}
					// a second valid frame arrives on the healthy connection in two halves, and between the halves this
					// node sends something of its own over that connection: buffers of the shared pool that were
					// given back twice by the handling of the hostile frame would now be used by both at once
					m2before := count(handled(w.recs["R"], "M:"), "m2") // (a mutation of the valid frame may itself be a valid m2)
					half := len(frames[1]) / 2
					w.Setup("after-half1", func() { good.Write(frames[1][:half]) })
					w.Setup("own-send", func() {
						nb.Send(gen.PID{Node: "c@localhost", ID: 1001, Creation: nb.creation}, "outgoing")
						nb.Send(gen.PID{Node: "c@localhost", ID: 1001, Creation: nb.creation}, "outgoing2")
					})
					w.Setup("after-half2", func() { good.Write(frames[1][half:]) })
					got = handled(w.recs["R"], "M:")
					if count(got, "m2") != m2before+1 {
						ex.Fail("other-connection-affected", "after the hostile frame a valid frame that arrived in two halves on ANOTHER connection, with an outgoing message in between, was handled %d times (receiver log %v)", count(got, "m2")-m2before, got)
					}
					if callErr != nil || fmt.Sprint(reply) != "re:ping" {
						ex.Fail("local-process-affected", "after the hostile frame a local call returned %v / %v", reply, callErr)
					}
					if !nb.IsAlive() {
						ex.Fail("node-down", "the node is not alive after the hostile frame")
					}
					// the pool of network buffers is shared by every connection of the process: nobody may get
					// a buffer that somebody else holds as well
					w.Setup("pool-check", func() {
						held := map[*lib.Buffer]bool{}
						var taken []*lib.Buffer
						for i := 0; i < 16; i++ {
							b := lib.TakeBuffer()
							if held[b] {
								ex.Fail("buffer-pool-corrupted", "after the hostile frame the buffer pool hands the same buffer out twice (take #%d): two connections would overwrite each other's frames", i)
							}
							held[b] = true
							taken = append(taken, b)
						}
						for _, b := range taken {
							lib.ReleaseBuffer(b)
						}
					})
					ex.Release()
					dropNode(nb)
					return fmt.Sprint(got)
				})
				runtime.ReadMemStats(&ms)
				r.Executions++
				r.Outcomes[out]++
				desc := fmt.Sprintf("frame #%d (%d bytes: %s)", idx, len(in), hex.EncodeToString(in[:minI(len(in), 40)]))
				for _, f := range fails {
					r.Fail(f.Kind, "%s: %s", desc, f.Detail)
				}
				if alloc := ms.TotalAlloc - before; alloc > 64<<20 {
					r.Fail("allocation-out-of-proportion", "%s: handling it allocated %d bytes", desc, alloc)
				}
			}
			r.States, r.Transitions, r.Distinct = r.Executions, r.Executions, r.Executions
			r.Samples = append(r.Samples, map[string]any{"inputs_total": len(inputs), "classes": "declared length 0..9; wrong magic/version; every truncation and byte substitution of a valid frame; every message type with 7 body lengths; compressed envelopes; oversized declared lengths"})
			return r
		}})
	}
}

func minI(a, b int) int {
	if a < b {
		return a
	}
	return b
}
