//go:build verif

package node

import (
	"fmt"
	"sort"
	"strconv"
	"strings"
	rt "time"
	_ "time/tzdata"

	"ergo.services/ergo/gen"
	"verif.local/vsched"
	"verif.local/vsched/harn"
)

// C20 — cron: jobs run exactly at the minutes their spec denotes.

// ---- reference: a set-based crontab evaluator, written independently of the implementation ----

type refField struct {
	star  bool
	set   map[int]bool
	last  bool            // L in day of month
	lastW map[int]bool    // nL in weekday
	nth   map[[2]int]bool // w#n
}

func refNum(s string, lo, hi int) (int, bool) {
	if s == "" {
		return 0, false
	}
	for _, c := range s {
		if c < '0' || c > '9' {
			return 0, false
		}
	}
	n, err := strconv.Atoi(s)
	if err != nil || n < lo || n > hi {
		return 0, false
	}
	return n, true
}

func refParseField(f string, min, max int, kind string) (refField, bool) {
	r := refField{set: map[int]bool{}, lastW: map[int]bool{}, nth: map[[2]int]bool{}}
	if f == "*" {
		r.star = true
		return r, true
	}
	if f == "" {
		return r, false
	}
	for _, item := range strings.Split(f, ",") {
		switch {
		case item == "*":
			return r, false
		case item == "L" && kind == "dom":
			r.last = true
		case strings.HasPrefix(item, "*/") && kind != "dow":
			st, ok := refNum(item[2:], 1, max)
			if !ok {
				return r, false
			}
			for x := min; x <= max; x += st {
				r.set[x] = true
			}
		case strings.HasSuffix(item, "L") && kind == "dow":
			w, ok := refNum(item[:len(item)-1], 1, 7)
			if !ok {
				return r, false
			}
			r.lastW[w] = true
		case strings.Contains(item, "#") && kind == "dow":
			p := strings.Split(item, "#")
			if len(p) != 2 {
				return r, false
			}
			w, ok1 := refNum(p[0], 1, 7)
			n, ok2 := refNum(p[1], 1, 5)
			if !ok1 || !ok2 {
				return r, false
			}
			r.nth[[2]int{w, n}] = true
		case strings.Contains(item, "-"):
			step := 1
			rng := item
			if i := strings.Index(item, "/"); i >= 0 {
				if kind == "dow" || kind == "month" {
					return r, false
				}
				st, ok := refNum(item[i+1:], 1, max)
				if !ok {
					return r, false
				}
				step, rng = st, item[:i]
			}
			p := strings.Split(rng, "-")
			if len(p) != 2 {
				return r, false
			}
			a, ok1 := refNum(p[0], min, max)
			b, ok2 := refNum(p[1], min, max)
			if !ok1 || !ok2 || a > b {
				return r, false
			}
			for x := a; x <= b; x += step {
				r.set[x] = true
			}
		default:
			n, ok := refNum(item, min, max)
			if !ok {
				return r, false
			}
			r.set[n] = true
		}
	}
	return r, true
}

type refSpec struct{ min, hour, dom, month, dow refField }

func refParse(spec string) (refSpec, bool) {
	switch spec {
	case "@hourly":
		spec = "1 * * * *"
	case "@daily":
		spec = "10 3 * * *"
	case "@monthly":
		spec = "20 4 1 * *"
	case "@weekly":
		spec = "30 5 * * 1"
	}
	f := strings.Fields(spec)
	if len(f) != 5 {
		return refSpec{}, false
	}
	var rs refSpec
	var ok [5]bool
	rs.min, ok[0] = refParseField(f[0], 0, 59, "min")
	rs.hour, ok[1] = refParseField(f[1], 0, 23, "hour")
	rs.dom, ok[2] = refParseField(f[2], 1, 31, "dom")
	rs.month, ok[3] = refParseField(f[3], 1, 12, "month")
	rs.dow, ok[4] = refParseField(f[4], 1, 7, "dow")
	for _, o := range ok {
		if !o {
			return rs, false
		}
	}
	return rs, true
}

func daysIn(t rt.Time) int {
	return rt.Date(t.Year(), t.Month()+1, 0, 0, 0, 0, 0, rt.UTC).Day()
}

func (r refSpec) match(t rt.Time) bool {
	if !r.min.star && !r.min.set[t.Minute()] {
		return false
	}
	if !r.hour.star && !r.hour.set[t.Hour()] {
		return false
	}
	if !r.month.star && !r.month.set[int(t.Month())] {
		return false
	}
	wd := int(t.Weekday())
	if wd == 0 {
		wd = 7
	}
	domOK := r.dom.set[t.Day()] || (r.dom.last && t.Day() == daysIn(t))
	dowOK := r.dow.set[wd] || (r.dow.lastW[wd] && t.Day()+7 > daysIn(t)) || r.dow.nth[[2]int{wd, (t.Day()-1)/7 + 1}]
	switch {
	case r.dom.star && r.dow.star:
		return true
	case r.dom.star:
		return dowOK
	case r.dow.star:
		return domOK
	default:
		return domOK || dowOK
	}
}

// ---- spec grammar ----------------------------------------------------------------------------------

var (
	c20mins   = []string{"*", "0", "1", "30", "59", "*/15", "*/7", "10-20", "10-50/20", "0,30", "5-5", "0-59/59", "59,0"}
	c20hours  = []string{"*", "0", "12", "23", "*/6", "9-17", "0-23/12", "0,23"}
	c20doms   = []string{"*", "1", "15", "28", "29", "30", "31", "L", "*/10", "28-31", "1,L", "1-31/15", "31,L", "2-30/2"}
	c20months = []string{"*", "1", "2", "12", "*/3", "6-8", "2,12", "1-12"}
	c20dows   = []string{"*", "1", "5", "7", "1-5", "6,7", "5L", "7L", "1#1", "5#5", "7#3", "1,5L", "3#2,7", "1L,7L", "1-7"}
	c20zones  = []string{"UTC", "Europe/Berlin", "America/New_York", "Asia/Kolkata", "Australia/Lord_Howe"}
)

type c20window struct {
	from  rt.Time
	hours int
}

func c20windows(thorough bool) []c20window {
	var wins []c20window
	for _, ln := range c20zones {
		loc, err := rt.LoadLocation(ln)
		if err != nil {
			panic(err)
		}
		wins = append(wins,
			c20window{rt.Date(2024, 2, 27, 0, 0, 0, 0, loc), 24 * 5},   // leap day, month end
			c20window{rt.Date(2023, 12, 30, 0, 0, 0, 0, loc), 24 * 4},  // year end
			c20window{rt.Date(2024, 3, 29, 0, 0, 0, 0, loc), 24 * 4},   // EU DST start, month end
			c20window{rt.Date(2024, 10, 24, 0, 0, 0, 0, loc), 24 * 12}, // EU and US DST end, last weekdays, month end
			c20window{rt.Date(2024, 3, 8, 0, 0, 0, 0, loc), 24 * 4},    // US DST start
			c20window{rt.Date(2024, 4, 4, 0, 0, 0, 0, loc), 24 * 4},    // Lord Howe DST end (half hour)
			c20window{rt.Date(2025, 2, 26, 0, 0, 0, 0, loc), 24 * 4},   // February of a non-leap year
		)
		if thorough {
			for m := 1; m <= 12; m++ {
				wins = append(wins, c20window{rt.Date(2025, rt.Month(m), 1, 0, 0, 0, 0, loc).Add(-72 * rt.Hour), 24 * 6})
			}
		}
	}
	return wins
}

func utcs(ts []rt.Time) []rt.Time {
	out := make([]rt.Time, len(ts))
	for i, t := range ts {
		out[i] = t.UTC()
	}
	return out
}

type actionRec struct{ fired *[]string }

func (a actionRec) Do(job gen.Atom, node gen.Node, at rt.Time) error {
	*a.fired = append(*a.fired, fmt.Sprintf("%s@%s", job, at.UTC().Format("15:04")))
	return nil
}
func (a actionRec) Info() string { return "record" }

func init() {
	// ---- parser and matcher against the reference, sharded over the minute field -------------------
	for mi := range c20mins {
		mi := mi
		harn.Register(harn.Scenario{Property: "C20", Name: fmt.Sprintf("matcher-minute-%02d", mi), Run: func(ctx *harn.Ctx) *harn.Result {
			r := harn.NewResult("enum")
			wins := c20windows(ctx.Thorough)
			stepMin := 5
			if ctx.Thorough {
				stepMin = 1
			}
			specs := 0
			k := 0
			for _, h := range c20hours {
				for _, d := range c20doms {
					for _, mo := range c20months {
						for _, w := range c20dows {
							k++
							// quick tier: a third of the cross product (every combination of two
							// fields still occurs); thorough tier: all of it
							if !ctx.Thorough && (k+mi)%3 != 0 {
								continue
							}
							spec := strings.Join([]string{c20mins[mi], h, d, mo, w}, " ")
							ref, ok := refParse(spec)
							mask, err := cronParseSpec(gen.CronJob{Spec: spec})
							if ok != (err == nil) {
								r.Fail("parse-disagreement", "spec %q: the grammar says valid=%v, the parser returned %v", spec, ok, err)
								continue
							}
							if !ok {
								continue
							}
							specs++
							for _, wn := range wins {
								end := wn.from.Add(rt.Duration(wn.hours) * rt.Hour)
								for tm := wn.from; tm.Before(end); tm = tm.Add(rt.Duration(stepMin) * rt.Minute) {
									r.Executions++
									if ref.match(tm) != mask.IsRunAt(tm) {
										r.Fail("match-disagreement", "spec %q at %s (%s): crontab rules say %v, the matcher says %v", spec, tm.Format("2006-01-02 15:04 Mon"), tm.Location(), ref.match(tm), mask.IsRunAt(tm))
									}
								}
							}
						}
					}
				}
			}
			r.States, r.Transitions, r.Distinct = specs, r.Executions, specs
			r.Samples = append(r.Samples, map[string]any{"minute_field": c20mins[mi], "specs": specs, "zones": c20zones, "minute_step": stepMin})
			return r
		}})
	}

	// ---- malformed specs are rejected when the job is added; reported schedules equal the matcher ----
	harn.Register(harn.Scenario{Property: "C20", Name: "addjob-validation-and-schedule-api", Run: func(ctx *harn.Ctx) *harn.Result {
		r := harn.NewResult("enum")
		vsched.RunOnce(10, nodeBody(func(w *World) {
			cr := w.n.Cron()
			var fired []string
			valid := []string{"* * * * *", "0 0 1 1 *", "*/15 9-17 * * 1-5", "0 12 L * *", "30 6 * * 5L", "0 0 * * 7#3", "1,2 3,4 5,6 7,8 1,2", "@hourly", "@daily", "@monthly", "@weekly", "59 23 31 12 7"}
			tokens := []string{"60", "24", "0", "32", "13", "8", "-1", "a", "", "*/0", "5-1", "1-", "-", "L", "7L", "0L", "8L", "1#0", "1#6", "#1", "1#", "*,1", "1,*", "*/60", "*/x", "1/2", "1-5/0", "1..5", "1 2", "?", "**"}
			n := 0
			for _, v := range valid {
				n++
				name := gen.Atom(fmt.Sprintf("v%d", n))
				ref, ok := refParse(v)
				err := cr.AddJob(gen.CronJob{Name: name, Spec: v, Location: rt.UTC, Action: actionRec{&fired}})
				r.Executions++
				if !ok || err != nil {
					r.Fail("valid-spec-rejected", "AddJob(%q) returned %v", v, err)
					continue
				}
				// JobSchedule over a window = minutes matched by the reference
				since := rt.Date(2024, 2, 27, 0, 0, 0, 0, rt.UTC)
				got, err := cr.JobSchedule(name, since, 96*rt.Hour)
				if err != nil {
					r.Fail("jobschedule-error", "%q: %v", v, err)
				}
				var want []rt.Time
				for tm := since; tm.Before(since.Add(96 * rt.Hour)); tm = tm.Add(rt.Minute) {
					if ref.match(tm) {
						want = append(want, tm)
					}
				}
				if fmt.Sprint(got) != fmt.Sprint(want) {
					r.Fail("jobschedule-mismatch", "JobSchedule(%q) over 4 days returned %d run times, crontab rules give %d (first difference: %s)", v, len(got), len(want), firstDiff(got, want))
				}
				cr.RemoveJob(name)
				// every one-token mutation of the valid spec
				fields := strings.Fields(v)
				if len(fields) != 5 {
					continue
				}
				for fi := range fields {
					for _, tok := range tokens {
						m := append([]string{}, fields...)
						m[fi] = tok
						spec := strings.Join(m, " ")
						_, ok := refParse(spec)
						err := cr.AddJob(gen.CronJob{Name: "mut", Spec: spec, Location: rt.UTC, Action: actionRec{&fired}})
						r.Executions++
						if err == nil {
							cr.RemoveJob("mut")
						}
						if ok != (err == nil) {
							k := "malformed-spec-accepted"
							if ok {
								k = "valid-spec-rejected"
							}
							r.Fail(k, "AddJob(%q): the grammar says valid=%v, AddJob returned %v", spec, ok, err)
						}
					}
				}
			}
			for _, bad := range []string{"", "* * * *", "* * * * * *", "@yearly", "@", "*****"} {
				if err := cr.AddJob(gen.CronJob{Name: "bad", Spec: bad, Location: rt.UTC, Action: actionRec{&fired}}); err == nil {
					r.Fail("malformed-spec-accepted", "AddJob(%q) succeeded", bad)
					cr.RemoveJob("bad")
				}
				r.Executions++
			}
			// reported run times of jobs in zones with daylight-saving time, over every boundary window
			// (JobSchedule and Schedule report instants; the spec is matched in the job's own zone)
			zspecs := []string{"30 12 * * *", "30 2 * * *", "0 3 * * *", "*/30 1-3 * * *", "15 0 L * *", "0 0 * * 7L"}
			for _, ln := range c20zones {
				loc, _ := rt.LoadLocation(ln)
				for zi, zs := range zspecs {
					name := gen.Atom(fmt.Sprintf("z%d", zi))
					ref, _ := refParse(zs)
					if err := cr.AddJob(gen.CronJob{Name: name, Spec: zs, Location: loc, Action: actionRec{&fired}}); err != nil {
						r.Fail("valid-spec-rejected", "AddJob(%q, %s) returned %v", zs, ln, err)
						continue
					}
					for _, win := range c20windows(ctx.Thorough) {
						if win.from.Location().String() != ln {
							continue
						}
						// the window starts one hour before a day boundary of the zone, so that the offset at its start
						// differs from the offset after the transition inside it
						since := win.from.Add(-rt.Hour).UTC()
						period := rt.Duration(win.hours) * rt.Hour
						got, err := cr.JobSchedule(name, since, period)
						r.Executions++
						if err != nil {
							r.Fail("jobschedule-error", "%q in %s: %v", zs, ln, err)
							continue
						}
						var want []rt.Time
						for tm := since; tm.Before(since.Add(period)); tm = tm.Add(rt.Minute) {
							if ref.match(tm.In(loc)) {
								want = append(want, tm)
							}
						}
						if fmt.Sprint(utcs(got)) != fmt.Sprint(utcs(want)) {
							r.Fail("jobschedule-mismatch", "JobSchedule(%q, zone %s) from %s over %d h returned %d run times, crontab rules give %d (first difference: %s)", zs, ln, since.Format("2006-01-02 15:04Z"), win.hours, len(got), len(want), firstDiff(utcs(got), utcs(want)))
						}
						// Schedule (all jobs) must list the same instants for this job
						var viaAll []rt.Time
						for _, sc := range cr.Schedule(since, period) {
							for _, j := range sc.Jobs {
								if j == name {
									viaAll = append(viaAll, sc.Time)
								}
							}
						}
						if fmt.Sprint(utcs(viaAll)) != fmt.Sprint(utcs(want)) {
							r.Fail("schedule-mismatch", "Schedule() lists %q (zone %s) from %s at %d instants, crontab rules give %d (first difference: %s)", zs, ln, since.Format("2006-01-02 15:04Z"), len(viaAll), len(want), firstDiff(utcs(viaAll), utcs(want)))
						}
					}
					cr.RemoveJob(name)
				}
			}
			// Schedule (all jobs) agrees with JobSchedule
			cr.AddJob(gen.CronJob{Name: "a", Spec: "*/20 * * * *", Location: rt.UTC, Action: actionRec{&fired}})
			cr.AddJob(gen.CronJob{Name: "b", Spec: "0 1 * * *", Location: rt.UTC, Action: actionRec{&fired}})
			since := rt.Date(2024, 5, 1, 0, 0, 0, 0, rt.UTC)
			sched := cr.Schedule(since, 3*rt.Hour)
			var flat []string
			for _, s := range sched {
				js := append([]gen.Atom{}, s.Jobs...)
				sort.Slice(js, func(i, j int) bool { return js[i] < js[j] })
				flat = append(flat, fmt.Sprintf("%s%v", s.Time.Format("15:04"), js))
			}
			want := "[00:00['a'] 00:20['a'] 00:40['a'] 01:00['a' 'b'] 01:20['a'] 01:40['a'] 02:00['a'] 02:20['a'] 02:40['a']]"
			if fmt.Sprint(flat) != want {
				r.Fail("schedule-mismatch", "Schedule over 3 hours returned %v", flat)
			}
		}))
		r.States, r.Transitions, r.Distinct = r.Executions, r.Executions, r.Executions
		r.Samples = append(r.Samples, "valid specs x one-token mutations x AddJob; JobSchedule over 4 days")
		return r
	}})

	// ---- the scheduler under the virtual clock: histories of AddJob/RemoveJob/Enable/Disable/tick ----
	// the virtual clock starts at 00:00:30; the job specs are chosen relative to it
	// (zoned-*: the job lives in a zone 3 h 30 min ahead of the node's: 00:01 on the node's clock is 03:31 there)
	jobSpecs := map[string]string{"first": "1 0 * * *", "second": "2 0 * * *", "every": "* * * * *", "never": "0 5 1 1 *", "zoned-first": "31 3 * * *", "zoned-not-first": "1 0 * * *"}
	ahead := rt.FixedZone("+0330", 3*3600+1800)
	jobLoc := map[string]*rt.Location{"zoned-first": ahead, "zoned-not-first": ahead}
	for _, pair := range [][2]string{{"first", "every"}, {"second", "never"}, {"every", "every"}, {"zoned-first", "zoned-not-first"}} {
		pair := pair
		alphabet := []string{"add.A", "add.B", "remove.A", "enable.A", "disable.A", "enable.B", "disable.B", "tick"}
		spec := harn.OpSeqSpec{Alphabet: alphabet, DepthQuick: 5, DepthThorough: 7, NoDedupQuick: 3, NoDedupThorough: 4}
		spec.Run = func(hist []int, fail func(kind, format string, a ...any)) string {
			key := ""
			fails, _ := vsched.RunOnce(10, nodeBody(func(w *World) {
				cr := w.n.Cron()
				var fired []string
				specOf := map[string]string{"A": jobSpecs[pair[0]], "B": jobSpecs[pair[1]]}
				locOf := map[string]*rt.Location{"A": rt.UTC, "B": rt.UTC}
				for i, jn := range []string{"A", "B"} {
					if l := jobLoc[pair[i]]; l != nil {
						locOf[jn] = l
					}
				}
				present := map[string]bool{}
				enabled := map[string]bool{}
				var expect []string
				now := rt.Unix(0, w.ex.Now).UTC()
				minute := now.Truncate(rt.Minute)
				for step, opi := range hist {
					op := alphabet[opi]
					here := namesOf(alphabet, hist[:step+1])
					what, j, _ := strings.Cut(op, ".")
					var err error
					switch what {
					case "add":
						err = cr.AddJob(gen.CronJob{Name: gen.Atom(j), Spec: specOf[j], Location: locOf[j], Action: actionRec{&fired}})
						if present[j] != (err != nil) {
							fail("cron-api-result", "after %v: AddJob returned %v (job present=%v)", here, err, present[j])
							return
						}
						if err == nil {
							present[j], enabled[j] = true, true
						}
					case "remove":
						err = cr.RemoveJob(gen.Atom(j))
						if present[j] != (err == nil) {
							fail("cron-api-result", "after %v: RemoveJob returned %v (job present=%v)", here, err, present[j])
							return
						}
						present[j] = false
					case "enable", "disable":
						if what == "enable" {
							err = cr.EnableJob(gen.Atom(j))
						} else {
							err = cr.DisableJob(gen.Atom(j))
						}
						if present[j] != (err == nil) {
							fail("cron-api-result", "after %v: %s returned %v (job present=%v)", here, op, err, present[j])
							return
						}
						if present[j] {
							enabled[j] = what == "enable"
						}
					case "tick":
						minute = minute.Add(rt.Minute)
						// let the virtual clock reach the next minute: the cron timer fires, jobs run
						w.ex.Horizon = minute.UnixNano() + int64(rt.Second)
						w.nsetup++
						w.ex.Thread(fmt.Sprintf("tick%d", w.nsetup), func() {})
						w.ex.Run() // not a set-up phase: timers up to the horizon fire
						for _, jn := range []string{"A", "B"} {
							ref, _ := refParse(specOf[jn])
							if present[jn] && enabled[jn] && ref.match(minute.In(locOf[jn])) {
								expect = append(expect, fmt.Sprintf("'%s'@%s", jn, minute.Format("15:04")))
							}
						}
						got := append([]string{}, fired...)
						sort.Strings(got)
						want := append([]string{}, expect...)
						sort.Strings(want)
						if fmt.Sprint(got) != fmt.Sprint(want) {
							k := "cron-firing-mismatch"
							if len(got) < len(want) {
								k = "cron-job-missed"
							} else if len(got) > len(want) {
								k = "cron-job-fired-unexpectedly"
							}
							fail(k, "after %v (jobs A=%q B=%q, clock started at 00:00:30): fired %v, due %v", here, specOf["A"], specOf["B"], got, want)
							return
						}
					}
				}
				info := cr.Info()
				key = fmt.Sprintf("t=%s present=%v/%v enabled=%v/%v spool=%d", minute.Format("15:04"), present["A"], present["B"], enabled["A"], enabled["B"], len(info.Spool))
			}))
			for _, f := range fails {
				fail(f.Kind, "%s", f.Detail)
			}
			return key
		}
		harn.Register(harn.Scenario{Property: "C20", Name: fmt.Sprintf("scheduler-%s-%s", pair[0], pair[1]), Run: func(c *harn.Ctx) *harn.Result { return harn.OpSeq(c, spec) }})
	}
}

func firstDiff(a, b []rt.Time) string {
	for i := 0; i < len(a) || i < len(b); i++ {
		switch {
		case i >= len(a):
			return "missing " + b[i].Format("2006-01-02 15:04")
		case i >= len(b):
			return "extra " + a[i].Format("2006-01-02 15:04")
		case !a[i].Equal(b[i]):
			return fmt.Sprintf("%s vs %s", a[i].Format("2006-01-02 15:04"), b[i].Format("2006-01-02 15:04"))
		}
	}
	return "none"
}
