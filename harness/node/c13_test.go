//go:build verif

package node

import (
	"fmt"
	"strings"

	"ergo.services/ergo/gen"
	"verif.local/vsched/harn"
)

// C13 — network FIFO between a pair of processes.

type seqReq struct {
	to   gen.PID
	msgs []string
}

// seqSender: a probe on node A that sends the requested messages, in order, to a remote pid
func seqSender(w *World, name string, errs *[]string) gen.PID {
	return w.spawnProbe(name, probeCfg{onMsg: func(p *probe, from gen.PID, m any) error {
		if r, ok := m.(seqReq); ok {
			for _, x := range r.msgs {
				if err := p.Send(r.to, x); err != nil {
					*errs = append(*errs, x+":"+err.Error())
				}
			}
		}
		return nil
	}}, gen.ProcessOptions{})
}

func inOrder(got []string, want []string) bool {
	i := 0
	for _, g := range got {
		for i < len(want) && want[i] != g {
			i++
		}
		if i == len(want) {
			return false
		}
		i++
	}
	return true
}

func init() {
	type cfg struct {
		skipA, skipB int
		pool         int
		hold         int // index of the link (towards B) that is slow; -1 none
	}
	var cfgs []cfg
	for _, sa := range []int{0, 19} { // sender pid 1001 (residue 236) / 1020 (residue 0)
		for _, sb := range []int{0, 19, 18} { // receiver pid 1001 / 1020 / 1019 (residue 254)
			for _, pool := range []int{1, 2} {
				holds := []int{-1}
				if pool == 2 {
					holds = []int{-1, 0, 1}
				}
				for _, h := range holds {
					cfgs = append(cfgs, cfg{sa, sb, pool, h})
				}
			}
		}
	}
	for _, c := range cfgs {
		c := c
		name := fmt.Sprintf("fifo-sender%d-receiver%d-pool%d", 1001+c.skipA, 1001+c.skipB, c.pool)
		if c.hold >= 0 {
			name += fmt.Sprintf("-slowlink%d", c.hold)
		}
		harn.Register(harn.Scenario{Property: "C13", Name: name, Run: func(ctx *harn.Ctx) *harn.Result {
			return harn.Explore(ctx, harn.Sched{QuickBound: 1, ThoroughBound: 2, Preempt: false, Cache: true, Body: netBody(netOpts{skipA: c.skipA, skipB: c.skipB}, func(nw *NetWorld) {
				var errs []string
				spid := seqSender(nw.a, "S", &errs)
				rpid := nw.b.spawnProbe("R", probeCfg{}, gen.ProcessOptions{})
				nw.connect()
				for k := 1; k < c.pool; k++ {
					nw.addLink()
				}
				if nw.ex.Failed() {
					return
				}
				msgs := []string{"m1", "m2", "m3"}
				if c.hold >= 0 {
					nw.links[c.hold].cb.Hold = true
				}
				nw.ex.Thread("GO", func() { nw.a.n.Send(spid, seqReq{rpid, msgs}) })
				if c.hold >= 0 {
					nw.ex.ThreadLow("RELEASE", func() { nw.links[c.hold].cb.Hold = false })
				}
				nw.Check = func() {
					got := handled(nw.b.recs["R"], "M:")
					if !inOrder(got, msgs) {
						nw.ex.Fail("network-order-violated", "sender %d on A sent %v to receiver %d on B (pool of %d links, slow link %d); they were handled in the order %v", spid.ID, msgs, rpid.ID, c.pool, c.hold, got)
					}
					if len(got) != len(msgs) && len(errs) == 0 {
						nw.ex.Fail("network-message-lost", "sent %v, handled %v, no send error", msgs, got)
					}
					nw.Out("got=%s errs=%v", strings.Join(got, ","), errs)
				}
			})})
		}})
	}
	// the pool grows (a link joins) between two sends while the first link is slow
	for _, sa := range []int{0, 1} {
		sa := sa
		harn.Register(harn.Scenario{Property: "C13", Name: fmt.Sprintf("fifo-pool-grows-sender%d", 1001+sa), Run: func(ctx *harn.Ctx) *harn.Result {
			return harn.Explore(ctx, harn.Sched{QuickBound: 0, ThoroughBound: 1, Preempt: false, Cache: true, Body: netBody(netOpts{skipA: sa}, func(nw *NetWorld) {
				var errs []string
				spid := seqSender(nw.a, "S", &errs)
				rpid := nw.b.spawnProbe("R", probeCfg{}, gen.ProcessOptions{})
				nw.connect()
				nw.links[0].cb.Hold = true
				nw.a.Setup("go1", func() { nw.a.n.Send(spid, seqReq{rpid, []string{"m1"}}) })
				nw.addLink()
				nw.a.Setup("go2", func() { nw.a.n.Send(spid, seqReq{rpid, []string{"m2"}}) })
				nw.ex.Thread("RELEASE", func() { nw.links[0].cb.Hold = false })
				nw.Check = func() {
					got := handled(nw.b.recs["R"], "M:")
					if !inOrder(got, []string{"m1", "m2"}) {
						nw.ex.Fail("network-order-violated-pool-growth", "sender %d sent m1, a pooled link joined, it sent m2; handled in the order %v", spid.ID, got)
					}
					nw.Out("got=%s errs=%v", strings.Join(got, ","), errs)
				}
			})})
		}})
	}
}
