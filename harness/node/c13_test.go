//go:build verif

package node

import (
	"fmt"
	"strings"

	"ergo.services/ergo/gen"
	"ergo.services/ergo/net/handshake"
	"verif.local/vsched"
	"verif.local/vsched/harn"
	"verif.local/vsched/vconn"
	vsync "verif.local/vsched/vsync"
)

// C13 — network FIFO between a pair of processes.

type seqReq struct {
	to   any // gen.PID, gen.ProcessID or gen.Alias
	msgs []string
}

// seqSender: a probe on node A that sends the requested messages, in order, to a remote pid
func seqSender(w *World, name string, errs *[]string) gen.PID {
	return w.spawnProbe(name, probeCfg{onMsg: func(p *probe, from gen.PID, m any) error {
		if r, ok := m.(seqReq); ok {
			for _, x := range r.msgs {
				var err error
				if strings.HasPrefix(x, "!") { // sent with the important-delivery flag
					err = p.SendImportant(r.to, x)
				} else if strings.HasPrefix(x, "^") { // sent with an explicit (High) priority
					err = p.SendWithPriority(r.to, x, gen.MessagePriorityHigh)
				} else {
					err = p.Send(r.to, x)
				}
				if err != nil {
					*errs = append(*errs, x+":"+err.Error())
				}
			}
		}
		return nil
	}}, gen.ProcessOptions{})
}

func inOrder(got []string, want []string) bool {
	i := 0
	for _, g := range got {
		for i < len(want) && want[i] != g {
			i++
		}
		if i == len(want) {
			return false
		}
		i++
	}
	return true
}

func init() {
	type cfg struct {
		skipA, skipB int
		pool         int
		hold         int // index of the link (towards B) that is slow; -1 none
	}
	var cfgs []cfg
	for _, sa := range []int{0, 19} { // sender pid 1001 (residue 236) / 1020 (residue 0)
		for _, sb := range []int{0, 19, 18} { // receiver pid 1001 / 1020 / 1019 (residue 254)
			for _, pool := range []int{1, 2} {
				holds := []int{-1}
				if pool == 2 {
					holds = []int{-1, 0, 1}
				}
				for _, h := range holds {
					cfgs = append(cfgs, cfg{sa, sb, pool, h})
				}
			}
		}
	}
	for _, c := range cfgs {
		c := c
		name := fmt.Sprintf("fifo-sender%d-receiver%d-pool%d", 1001+c.skipA, 1001+c.skipB, c.pool)
		if c.hold >= 0 {
			name += fmt.Sprintf("-slowlink%d", c.hold)
		}
		harn.Register(harn.Scenario{Property: "C13", Name: name, Run: func(ctx *harn.Ctx) *harn.Result {
			return harn.Explore(ctx, harn.Sched{QuickBound: 1, ThoroughBound: 2, Preempt: false, Cache: true, Body: netBody(netOpts{skipA: c.skipA, skipB: c.skipB, samePids: true}, func(nw *NetWorld) {
				var errs []string
				spid := seqSender(nw.a, "S", &errs)
				rpid := nw.b.spawnProbe("R", probeCfg{}, gen.ProcessOptions{})
				nw.connect()
				for k := 1; k < c.pool; k++ {
					nw.addLink()
				}
				if nw.ex.Failed() {
					return
				}
				msgs := []string{"m1", "m2", "m3"}
				if c.hold >= 0 {
					nw.links[c.hold].cb.Hold = true
				}
				nw.ex.Thread("GO", func() { nw.a.n.Send(spid, seqReq{rpid, msgs}) })
				if c.hold >= 0 {
					nw.ex.ThreadLow("RELEASE", func() { nw.links[c.hold].cb.Hold = false })
				}
				nw.Check = func() {
					got := handled(nw.b.recs["R"], "M:")
					if !inOrder(got, msgs) {
						nw.ex.Fail("network-order-violated", "sender %d on A sent %v to receiver %d on B (pool of %d links, slow link %d); they were handled in the order %v", spid.ID, msgs, rpid.ID, c.pool, c.hold, got)
					}
					if len(got) != len(msgs) && len(errs) == 0 {
						nw.ex.Fail("network-message-lost", "sent %v, handled %v, no send error", msgs, got)
					}
					nw.Out("got=%s errs=%v", strings.Join(got, ","), errs)
				}
			})})
		}})
	}
	// the same with every message sent through SendWithPriority (one priority: the order of the sends is the order of handling)
	for _, c := range []cfg{{0, 0, 1, -1}, {0, 0, 2, -1}, {0, 0, 2, 0}, {0, 0, 2, 1}} {
		c := c
		name := fmt.Sprintf("fifo-with-priority-pool%d", c.pool)
		if c.hold >= 0 {
			name += fmt.Sprintf("-slowlink%d", c.hold)
		}
		harn.Register(harn.Scenario{Property: "C13", Name: name, Run: func(ctx *harn.Ctx) *harn.Result {
			return harn.Explore(ctx, harn.Sched{QuickBound: 1, ThoroughBound: 2, Preempt: false, Cache: true, Body: netBody(netOpts{}, func(nw *NetWorld) {
				var errs []string
				spid := seqSender(nw.a, "S", &errs)
				rpid := nw.b.spawnProbe("R", probeCfg{}, gen.ProcessOptions{})
				nw.connect()
				for k := 1; k < c.pool; k++ {
					nw.addLink()
				}
				if nw.ex.Failed() {
					return
				}
				msgs := []string{"^m1", "^m2", "^m3"}
				if c.hold >= 0 {
					nw.links[c.hold].cb.Hold = true
				}
				nw.ex.Thread("GO", func() { nw.a.n.Send(spid, seqReq{rpid, msgs}) })
				if c.hold >= 0 {
					nw.ex.ThreadLow("RELEASE", func() { nw.links[c.hold].cb.Hold = false })
				}
				nw.Check = func() {
					got := handled(nw.b.recs["R"], "M:")
					if !inOrder(got, msgs) {
						nw.ex.Fail("network-order-violated", "sender %d on A sent %v with SendWithPriority(High) to receiver %d on B (pool of %d links, slow link %d); they were handled in the order %v", spid.ID, msgs, rpid.ID, c.pool, c.hold, got)
					}
					if len(got) != len(msgs) && len(errs) == 0 {
						nw.ex.Fail("network-message-lost", "sent %v, handled %v, no send error", msgs, got)
					}
					nw.Out("got=%s errs=%v", strings.Join(got, ","), errs)
				}
			})})
		}})
	}
	// the same pair, addressed by registered name and by alias (the alias's counter word is a multiple of 255 in one
	// variant: the words of an alias that select the receive queue must not be ones that can be zero mod 255 by
	// accident of the counter)
	for _, mode := range []string{"name", "alias", "alias-low-word-255"} {
		for _, c := range []cfg{{0, 0, 1, -1}, {0, 0, 2, -1}, {0, 0, 2, 0}, {0, 0, 2, 1}} {
			mode, c := mode, c
			name := fmt.Sprintf("fifo-by-%s-pool%d", mode, c.pool)
			if c.hold >= 0 {
				name += fmt.Sprintf("-slowlink%d", c.hold)
			}
			harn.Register(harn.Scenario{Property: "C13", Name: name, Run: func(ctx *harn.Ctx) *harn.Result {
				return harn.Explore(ctx, harn.Sched{QuickBound: 1, ThoroughBound: 2, Preempt: false, Cache: true, Body: netBody(netOpts{}, func(nw *NetWorld) {
					var errs []string
					spid := seqSender(nw.a, "S", &errs)
					r := &rec{name: "R"}
					nw.b.recs["R"] = r
					var to any
					nw.b.Setup("spawnR", func() {
						// the node's reference counter: its high part (second word of an alias) selects the receive queue
						nw.b.n.uniqID = 5<<18 + 100
						if mode == "alias-low-word-255" {
							nw.b.n.uniqID = 5<<18 + 254
						}
						pid, err := nw.b.n.SpawnRegister("rname", func() gen.ProcessBehavior { return &probe{} }, gen.ProcessOptions{}, probeCfg{rec: r})
						if err != nil {
							panic(err)
						}
						nw.b.pids["R"] = pid
						to = gen.ProcessID{Name: "rname", Node: nw.b.n.Name()}
					})
					if mode != "name" {
						nw.b.Do("R", func(p *probe) error {
							al, err := p.CreateAlias()
							if err != nil {
								panic(err)
							}
							to = al
							return nil
						})
					}
					nw.connect()
					for k := 1; k < c.pool; k++ {
						nw.addLink()
					}
					if nw.ex.Failed() {
						return
					}
					msgs := []string{"m1", "m2", "m3"}
					if c.hold >= 0 {
						nw.links[c.hold].cb.Hold = true
					}
					nw.ex.Thread("GO", func() { nw.a.n.Send(spid, seqReq{to, msgs}) })
					if c.hold >= 0 {
						nw.ex.ThreadLow("RELEASE", func() { nw.links[c.hold].cb.Hold = false })
					}
					nw.Check = func() {
						got := handled(nw.b.recs["R"], "M:")
						if !inOrder(got, msgs) {
							nw.ex.Fail("network-order-violated", "sender %d on A sent %v to %v on B (pool of %d links, slow link %d); they were handled in the order %v", spid.ID, msgs, to, c.pool, c.hold, got)
						}
						if len(got) != len(msgs) && len(errs) == 0 {
							nw.ex.Fail("network-message-lost", "sent %v, handled %v, no send error", msgs, got)
						}
						nw.Out("got=%s errs=%v", strings.Join(got, ","), errs)
					}
				})})
			}})
		}
	}
	// the pool grows (a link joins) between two sends while the first link is slow
	for _, sa := range []int{0, 1} {
		sa := sa
		harn.Register(harn.Scenario{Property: "C13", Name: fmt.Sprintf("fifo-pool-grows-sender%d", 1001+sa), Run: func(ctx *harn.Ctx) *harn.Result {
			return harn.Explore(ctx, harn.Sched{QuickBound: 0, ThoroughBound: 1, Preempt: false, Cache: true, Body: netBody(netOpts{skipA: sa}, func(nw *NetWorld) {
				var errs []string
				spid := seqSender(nw.a, "S", &errs)
				rpid := nw.b.spawnProbe("R", probeCfg{}, gen.ProcessOptions{})
				nw.connect()
				nw.links[0].cb.Hold = true
				nw.a.Setup("go1", func() { nw.a.n.Send(spid, seqReq{rpid, []string{"m1"}}) })
				nw.addLink()
				nw.a.Setup("go2", func() { nw.a.n.Send(spid, seqReq{rpid, []string{"m2"}}) })
				nw.ex.Thread("RELEASE", func() { nw.links[0].cb.Hold = false })
				nw.Check = func() {
					got := handled(nw.b.recs["R"], "M:")
					if !inOrder(got, []string{"m1", "m2"}) {
						nw.ex.Fail("network-order-violated-pool-growth", "sender %d sent m1, a pooled link joined, it sent m2; handled in the order %v", spid.ID, got)
					}
					nw.Out("got=%s errs=%v", strings.Join(got, ","), errs)
				}
			})})
		}})
	}
}

func init() {
	// ordinary and important sends of one pair share the order: an important message does not overtake
	for _, slow := range []int{0, 1} {
		slow := slow
		harn.Register(harn.Scenario{Property: "C13", Name: fmt.Sprintf("fifo-ordinary-then-important-slowlink%d", slow), Run: func(ctx *harn.Ctx) *harn.Result {
			return harn.Explore(ctx, harn.Sched{QuickBound: 1, ThoroughBound: 2, Preempt: false, Cache: true, HorizonS: 30, Body: netBody(netOpts{}, func(nw *NetWorld) {
				var errs []string
				spid := seqSender(nw.a, "S", &errs)
				rpid := nw.b.spawnProbe("R", probeCfg{}, gen.ProcessOptions{})
				nw.connect()
				nw.addLink()
				if nw.ex.Failed() {
					return
				}
				msgs := []string{"m1", "m2", "!m3", "m4"}
				nw.links[slow].cb.Hold = true
				nw.ex.Thread("GO", func() { nw.a.n.Send(spid, seqReq{rpid, msgs}) })
				nw.ex.ThreadLow("RELEASE", func() { nw.links[slow].cb.Hold = false })
				nw.Check = func() {
					got := handled(nw.b.recs["R"], "M:")
					if !inOrder(got, msgs) {
						nw.ex.Fail("network-order-violated", "sender %d sent %v ('!' = important delivery) over two links, link %d slow; handled in the order %v", spid.ID, msgs, slow, got)
					}
					nw.Out("got=%s errs=%v", strings.Join(got, ","), errs)
				}
			})})
		}})
	}
	// small and large frames of one pair on one link: the flusher buffers small frames and must not let a
	// frame larger than its buffer pass them
	for _, pool := range []int{1, 2} {
		pool := pool
		harn.Register(harn.Scenario{Property: "C13", Name: fmt.Sprintf("fifo-small-large-mix-pool%d", pool), Run: func(ctx *harn.Ctx) *harn.Result {
			return harn.Explore(ctx, harn.Sched{QuickBound: 1, ThoroughBound: 2, Preempt: false, Cache: true, Body: netBody(netOpts{}, func(nw *NetWorld) {
				var errs []string
				spid := seqSender(nw.a, "S", &errs)
				rpid := nw.b.spawnProbe("R", probeCfg{}, gen.ProcessOptions{})
				nw.connect()
				for k := 1; k < pool; k++ {
					nw.addLink()
				}
				if nw.ex.Failed() {
					return
				}
				big := func(tag string, n int) string { return tag + strings.Repeat("x", n) }
				msgs := []string{"s1", big("L2", 5000), "s3", big("L4", 70000), "s5", big("L6", 4090), "s7"}
				nw.ex.Thread("GO", func() { nw.a.n.Send(spid, seqReq{rpid, msgs}) })
				nw.Check = func() {
					var got, want []string
					for _, g := range handled(nw.b.recs["R"], "M:") {
						got = append(got, g[:2])
					}
					for _, m := range msgs {
						want = append(want, m[:2])
					}
					if !inOrder(got, want) {
						nw.ex.Fail("network-order-violated", "sent %v (s = a few bytes, L = 4-70 KB) over a pool of %d; handled in the order %v", want, pool, got)
					}
					if len(got) != len(want) && len(errs) == 0 {
						nw.ex.Fail("network-message-lost", "sent %v, handled %v, no send error", want, got)
					}
					nw.Out("got=%s errs=%v", strings.Join(got, ","), errs)
				}
			})})
		}})
	}
	// a pooled link drops in the middle of two streams (one in each direction) and is re-dialled by the real
	// Serve/Join code of the initiator: what arrives, arrives in order (what was in flight on the cut link may be lost)
	for _, cut := range []int{0, 1, 2} {
		for _, side := range []string{"a", "b"} {
			cut, side := cut, side
			harn.Register(harn.Scenario{Property: "C13", Name: fmt.Sprintf("fifo-link-drop-redial-link%d-cut-at-%s", cut, side), Run: func(ctx *harn.Ctx) *harn.Result {
				return harn.Explore(ctx, harn.Sched{QuickBound: 1, ThoroughBound: 2, Preempt: false, Cache: true, HorizonS: 30, Body: netBody(netOpts{}, func(nw *NetWorld) {
					var errsA, errsB []string
					sa := seqSender(nw.a, "SA", &errsA)
					ra := nw.a.spawnProbe("RA", probeCfg{}, gen.ProcessOptions{})
					sb := seqSender(nw.b, "SB", &errsB)
					rb := nw.b.spawnProbe("RB", probeCfg{}, gen.ProcessOptions{})
					nw.connectDialing(nil, nil)
					nw.ex.RunSetup()
					if nw.ex.Failed() {
						return
					}
					if len(nw.links) != 3 {
						nw.ex.Fail("harness", "expected a pool of 3 links after the set-up, got %d", len(nw.links))
						return
					}
					ma := []string{"m1", "m2", "m3", "m4"}
					mb := []string{"n1", "n2", "n3", "n4"}
					nw.ex.Thread("GOA", func() { nw.a.n.Send(sa, seqReq{rb, ma}) })
					nw.ex.Thread("GOB", func() { nw.b.n.Send(sb, seqReq{ra, mb}) })
					nw.ex.ThreadLow("CUT", func() {
						if side == "a" {
							nw.links[cut].ca.Close()
						} else {
							nw.links[cut].cb.Close()
						}
					})
					nw.Check = func() {
						gotB := handled(nw.b.recs["RB"], "M:")
						gotA := handled(nw.a.recs["RA"], "M:")
						if !inOrder(gotB, ma) {
							nw.ex.Fail("network-order-violated", "a->b: sent %v while link %d was cut and re-dialled; handled in the order %v", ma, cut, gotB)
						}
						if !inOrder(gotA, mb) {
							// the acceptor's pool is re-packed when a link leaves it and the re-dialled link is appended:
							// order%len(pool) selects another link for the rest of the stream (own kind: known finding)
							nw.ex.Fail("network-order-violated-acceptor-pool-repacked", "b->a: sent %v while link %d was cut and re-dialled; handled in the order %v", mb, cut, gotA)
						}
						_, ea := nw.a.n.network.Node(nw.b.n.Name())
						_, eb := nw.b.n.network.Node(nw.a.n.Name())
						if ea != nil || eb != nil {
							nw.ex.Fail("connection-lost-after-single-link-drop", "one of three links was cut; a sees b: %v, b sees a: %v", ea == nil, eb == nil)
						}
						nw.Out("a->b=%s b->a=%s links=%d errs=%v/%v", strings.Join(gotB, ","), strings.Join(gotA, ","), len(nw.links), errsA, errsB)
					}
				})})
			}})
		}
	}
	// compressed and uncompressed frames of one pair must share the receive queue
	// (also C03: one sender, one receiver, one priority - the receiver being on another node changes nothing)
	for _, prop := range []string{"C13", "C03"} {
		harn.Register(harn.Scenario{Property: prop, Name: "fifo-compressed-mix", Run: func(ctx *harn.Ctx) *harn.Result {
			return harn.Explore(ctx, harn.Sched{QuickBound: 1, ThoroughBound: 2, Preempt: false, Cache: true, Body: netBody(netOpts{skipB: 1}, func(nw *NetWorld) {
				var errs []string
				var got []string
				rpid := nw.b.spawnProbe("R", probeCfg{onMsg: func(p *probe, from gen.PID, m any) error {
					if b, ok := m.([]byte); ok {
						got = append(got, fmt.Sprintf("m%d", b[0]))
					}
					return nil
				}}, gen.ProcessOptions{})
				spid := nw.a.spawnProbe("S", probeCfg{onMsg: func(p *probe, from gen.PID, m any) error {
					for i, n := range []int{3000, 10, 2500, 12, 20} {
						pl := mkPayload(n, 0)
						pl[0] = byte(i + 1)
						if err := p.Send(rpid, pl); err != nil {
							errs = append(errs, err.Error())
						}
					}
					return nil
				}}, gen.ProcessOptions{Compression: gen.Compression{Enable: true, Threshold: 1025}})
				nw.connect()
				if nw.ex.Failed() {
					return
				}
				nw.ex.Thread("GO", func() { nw.a.n.Send(spid, "go") })
				nw.Check = func() {
					want := []string{"m1", "m2", "m3", "m4", "m5"}
					if !inOrder(got, want) {
						nw.ex.Fail("network-order-violated", "sender %d sent %v (frames above and below the compression threshold) to receiver %d; handled in the order %v", spid.ID, want, rpid.ID, got)
					}
					if len(got) != 5 && len(errs) == 0 {
						nw.ex.Fail("network-message-lost", "sent 5, handled %v", got)
					}
					nw.Out("got=%v errs=%v", got, errs)
				}
			})})
		}})
	}

	// receive-queue kernel: frames recorded once from a real sender are written one by one to the
	// link of a stand-alone receiving connection (node B only) while the link reader and the
	// queue workers interleave freely (preemption bounding)
	for _, prop := range []string{"C12", "C13"} {
		harn.Register(harn.Scenario{Property: prop, Name: "recvqueue-kernel-3frames", QuickShards: 10, Shards: 16, Run: func(ctx *harn.Ctx) *harn.Result {
			msgs := []string{"m1", "m2", "m3"}
			frames := recordFrames(msgs)
			if len(frames) != 3 {
				r := harn.NewResult("sched")
				r.Fail("harness", "expected 3 recorded frames, got %d", len(frames))
				return r
			}
			return harn.Explore(ctx, harn.Sched{QuickBound: 2, ThoroughBound: 3, Preempt: true, Cache: true, Body: func(ex *vsched.Exec) string {
				nb := startNetNode("b@localhost", netOpts{})
				w := &World{ex: ex, n: nb, recs: map[string]*rec{}, pids: map[string]gen.PID{}, tag: "B-"}
				w.spawnProbe("R", probeCfg{}, gen.ProcessOptions{})
				ca, cb := vconn.Pair("a0", "b0")
				res := gen.HandshakeResult{ConnectionID: "kernel", Peer: "a@localhost", PeerCreation: nb.creation, PeerFlags: nb.network.flags, NodeFlags: nb.network.flags,
					Custom: handshake.ConnectionOptions{PoolSize: 1,
						EncodeAtomCache: &vsync.Map{}, EncodeRegCache: &vsync.Map{}, EncodeErrCache: &vsync.Map{},
						DecodeAtomCache: &vsync.Map{}, DecodeRegCache: &vsync.Map{}, DecodeErrCache: &vsync.Map{}}}
				w.Setup("conn", func() {
					pc, err := nb.network.defaultProto.NewConnection(nb, res, createLog(gen.LogLevelDisabled, nb.dolog))
					if err != nil {
						panic(err)
					}
					nb.network.registerConnection(res.Peer, pc)
					pc.Join(cb, res.ConnectionID, nil, nil)
				})
				ex.Thread("FEED", func() {
					for _, f := range frames {
						ca.Write(f)
						vsched.Block(vsched.OpUser, 0, func() bool { return cb.Pending() == 0 })
					}
				})
				ex.Run()
				got := handled(w.recs["R"], "M:")
				if !inOrder(got, msgs) {
					ex.Fail("network-order-violated", "frames m1,m2,m3 of one pair arrived on one link; handled in the order %v", got)
				}
				for _, m := range msgs {
					if n := count(got, m); n != 1 {
						k := "network-message-lost"
						if n > 1 {
							k = "network-message-duplicated"
						}
						ex.Fail(k, "frame %s was handled %d times (%v): the receive queue is left non-empty with no worker, or drained twice", m, n, got)
					}
				}
				ex.Release()
				dropNode(nb)
				return fmt.Sprint(got)
			}})
		}})
	}
}

var recorded = map[string][][]byte{}

// recordFrames runs a real two-node exchange once (default schedule) and returns the frames that
// node A wrote for the given messages from its first process to the first process of node B
func recordFrames(msgs []string) [][]byte {
	key := strings.Join(msgs, ",")
	if f, ok := recorded[key]; ok {
		return f
	}
	var frames [][]byte
	vsched.RunOnce(10, netBody(netOpts{samePids: true}, func(nw *NetWorld) { // the frames are replayed to a stand-alone node whose receiver is its first process
		var errs []string
		spid := seqSender(nw.a, "S", &errs)
		rpid := nw.b.spawnProbe("R", probeCfg{}, gen.ProcessOptions{})
		nw.connect()
		if nw.ex.Failed() {
			return
		}
		link := nw.links[0]
		link.cb.Hold = true
		nw.a.Setup("record", func() { nw.a.n.Send(spid, seqReq{rpid, msgs}) })
		stream := append([]byte{}, link.cb.Drain()...)
		link.cb.Hold = false
		for len(stream) >= 8 {
			l := int(stream[2])<<24 | int(stream[3])<<16 | int(stream[4])<<8 | int(stream[5])
			if l < 8 || l > len(stream) {
				break
			}
			frames = append(frames, stream[:l])
			stream = stream[l:]
		}
	}))
	recorded[key] = frames
	return frames
}
