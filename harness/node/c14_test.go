//go:build verif

package node

import (
	"fmt"
	"strings"

	"ergo.services/ergo/gen"
	"verif.local/vsched"
	"verif.local/vsched/harn"
)

// C14 — remote failure detection: node down, remote termination, incarnations.

// remoteObserver spawns, on node A, a trapping probe as a CHILD of a harness parent (node-down
// exits carry the core pid as sender, which an actor spawned by the node itself never traps).
func remoteObserver(w *World, name string) *observer {
	o := &observer{name: name}
	if _, ok := w.pids["PAR"]; !ok {
		w.spawnProbe("PAR", probeCfg{trap: true}, gen.ProcessOptions{})
	}
	r := &rec{name: name}
	w.recs[name] = r
	w.Do("PAR", func(p *probe) error {
		pid, err := p.Spawn(func() gen.ProcessBehavior { return &probe{} }, gen.ProcessOptions{}, probeCfg{rec: r, trap: true, onMsg: func(q *probe, from gen.PID, m any) error {
			switch x := m.(type) {
			case gen.MessageExitNode:
				o.notifs = append(o.notifs, "exit:node:"+string(x.Name)+":no connection")
			case gen.MessageDownNode:
				o.notifs = append(o.notifs, "down:node:"+string(x.Name)+":no connection")
			default:
				if s := notifOf(m); s != "" {
					o.notifs = append(o.notifs, s)
				}
			}
			return nil
		}})
		if err != nil {
			panic(err)
		}
		w.pids[name] = pid
		return nil
	})
	return o
}

func init() {
	// ---- link/monitor on a remote target vs connection loss / remote termination ------------------
	faults := []string{"cut", "kill-target", "peer-stops"}
	for _, rel := range []string{"link", "monitor"} {
		for _, kind := range []string{"pid", "name", "alias", "event", "node"} {
			for _, fault := range faults {
				if kind == "node" && fault == "kill-target" {
					continue
				}
				rel, kind, fault := rel, kind, fault
				for _, prop := range []string{"C14", "C04"} {
					tiers := ""
					if fault == "kill-target" && kind != "pid" && prop == "C14" {
						tiers = "thorough"
					}
					if fault == "peer-stops" && kind != "pid" && kind != "node" && kind != "event" {
						tiers = "thorough"
					}
					if prop == "C04" && fault != "kill-target" {
						continue // C04: a request racing with the disappearance of the (remote) target itself, every kind of target
					}
					harn.Register(harn.Scenario{Property: prop, Name: fmt.Sprintf("remote-%s-%s-%s", rel, kind, fault), Tiers: tiers, Run: func(c *harn.Ctx) *harn.Result {
						qb, tb := 1, 2
						if kind == "node" && fault == "cut" {
							qb, tb = 2, 3 // the request must land inside the unregistration of the connection, after the cut: two deviations
						}
						return harn.Explore(c, harn.Sched{QuickBound: qb, ThoroughBound: tb, Preempt: false, Cache: true, HorizonS: 30, Body: netBody(netOpts{}, func(nw *NetWorld) {
							nw.b.ex.Data["kind"] = kind
							t := nw.b.spawnTarget("T", "tname", "tev")
							o := remoteObserver(nw.a, "L")
							nw.connect()
							if nw.ex.Failed() {
								return
							}
							var reqErr error
							asked := false
							nw.ex.Thread("REQ", func() {
								nw.a.n.Send(nw.a.pids["L"], doMsg{func(p *probe) error {
									if kind == "node" {
										if rel == "link" {
											reqErr = p.LinkNode(nw.b.n.Name())
										} else {
											reqErr = p.MonitorNode(nw.b.n.Name())
										}
									} else {
										reqErr = request(p, rel, kind, t)
									}
									asked = true
									return nil
								}})
							})
							nw.ex.ThreadLow("FAULT", func() {
								switch fault {
								case "cut":
									nw.links[0].ca.Close()
								case "peer-stops":
									nw.b.n.Stop()
								default:
									nw.b.n.Kill(t.pid)
								}
							})
							nw.Check = func() {
								pre := "exit:"
								if rel == "monitor" {
									pre = "down:"
								}
								tk := "node:" + string(nw.b.n.Name())
								if kind != "node" {
									tk = targetKey(kind, t)
								}
								want := pre + tk + ":"
								reason := "no connection"
								if fault == "kill-target" {
									reason = "kill"
								}
								n := 0
								for _, x := range o.notifs {
									if strings.HasPrefix(x, want) {
										n++
										// a node that stops gracefully first shuts its processes down: a target that ends before
										// the connection does is reported with its own reason ('shutdown'), which the statement allows
										if !strings.HasSuffix(x, ":"+reason) && !(fault == "kill-target" && strings.HasSuffix(x, ":no connection")) &&
											!(fault == "peer-stops" && kind != "node" && strings.HasSuffix(x, ":shutdown")) {
											nw.ex.Fail("wrong-reason", "notification %q, expected reason %q", x, reason)
										}
									} else {
										nw.ex.Fail("foreign-notification", "observer received %q, which it never asked for", x)
									}
								}
								// the observer may have been terminated by an untrapped exit instead: count it
								if r := nw.a.recs["L"]; len(r.term) > 0 {
									n++
								}
								switch {
								case !asked:
									nw.ex.Fail("request-never-returned", "the %s request on the remote %s never returned (requester state: blocked)", rel, kind)
								case reqErr == nil && n == 0:
									nw.ex.Fail("request-ok-no-notification", "%s on remote %s was acknowledged, then the %s happened and the requester was never notified", rel, kind, fault)
								case reqErr != nil && n > 0:
									nw.ex.Fail("request-failed-but-notified", "%s on remote %s returned %v but %d notification(s) arrived", rel, kind, reqErr, n)
								case n > 1:
									nw.ex.Fail("notified-twice", "%s on remote %s: %d notifications %v", rel, kind, n, o.notifs)
								}
								nw.Out("req=%v notifs=%v", reqErr, o.notifs)
							}
						})})
					}})
				}
			}
		}
	}

	// ---- an established relation: the remote target terminates and the connection is lost at the
	// same moment => still exactly one notification ---------------------------------------------------
	for _, rel := range []string{"link", "monitor"} {
		rel := rel
		harn.Register(harn.Scenario{Property: "C14", Name: fmt.Sprintf("established-%s-pid-kill-vs-cut", rel), Run: func(c *harn.Ctx) *harn.Result {
			return harn.Explore(c, harn.Sched{QuickBound: 1, ThoroughBound: 2, Preempt: false, Cache: true, HorizonS: 30, Body: netBody(netOpts{}, func(nw *NetWorld) {
				nw.b.ex.Data["kind"] = "pid"
				t := nw.b.spawnTarget("T", "tname", "tev")
				o := remoteObserver(nw.a, "L")
				nw.connect()
				if nw.ex.Failed() {
					return
				}
				var reqErr error
				nw.a.Do("L", func(p *probe) error { reqErr = request(p, rel, "pid", t); return nil })
				if reqErr != nil {
					nw.ex.Fail("harness", "%s on the remote pid failed: %v", rel, reqErr)
					return
				}
				nw.ex.Thread("KILL", func() { nw.b.n.Kill(t.pid) })
				nw.ex.ThreadLow("CUT", func() { nw.links[0].ca.Close() })
				nw.Check = func() {
					n := len(o.notifs)
					if r := nw.a.recs["L"]; len(r.term) > 0 {
						n++
					}
					if n != 1 {
						k := "notified-twice"
						if n == 0 {
							k = "request-ok-no-notification"
						}
						nw.ex.Fail(k, "an established %s on a remote pid; the target was killed and the connection cut concurrently: %d notifications %v", rel, n, o.notifs)
					}
					nw.Out("notifs=%v", o.notifs)
				}
			})})
		}})
	}

	// ---- a process spawned on the other node with LinkChild: the parent is told of its termination with the remote
	// reason while connected, and of the lost connection otherwise ---------------------------------------------------
	for _, how := range []string{"RemoteSpawn", "RemoteSpawnRegister"} {
		for _, fault := range []string{"kill-child", "child-fails", "cut"} {
			how, fault := how, fault
			harn.Register(harn.Scenario{Property: "C14", Name: fmt.Sprintf("remote-spawn-linkchild-%s-%s", strings.ToLower(how), fault), Run: func(c *harn.Ctx) *harn.Result {
				return harn.Explore(c, harn.Sched{QuickBound: 1, ThoroughBound: 2, Preempt: false, Cache: true, HorizonS: 30, Body: netBody(netOpts{}, func(nw *NetWorld) {
					cr := &rec{name: "CH"}
					nw.b.recs["CH"] = cr
					if err := nw.b.n.network.EnableSpawn("rproc", func() gen.ProcessBehavior {
						return &probe{cfg: probeCfg{rec: cr, onMsg: func(p *probe, from gen.PID, m any) error {
							if m == "fail" {
								return errE
							}
							return nil
						}}}
					}); err != nil {
						panic(err)
					}
					o := remoteObserver(nw.a, "L")
					nw.connect()
					if nw.ex.Failed() {
						return
					}
					var child gen.PID
					var reqErr error
					nw.a.Do("L", func(p *probe) error {
						if how == "RemoteSpawn" {
							child, reqErr = p.RemoteSpawn(nw.b.n.Name(), "rproc", gen.ProcessOptions{LinkChild: true})
						} else {
							child, reqErr = p.RemoteSpawnRegister(nw.b.n.Name(), "rproc", "regname", gen.ProcessOptions{LinkChild: true})
						}
						return nil
					})
					if reqErr != nil {
						nw.ex.Fail("harness", "%s failed: %v", how, reqErr)
						return
					}
					nw.ex.Thread("FAULT", func() {
						switch fault {
						case "kill-child":
							nw.b.n.Kill(child)
						case "child-fails":
							nw.b.n.Send(child, "fail")
						default:
							nw.links[0].ca.Close()
						}
					})
					nw.Check = func() {
						reason := map[string]string{"kill-child": "kill", "child-fails": "E", "cut": "no connection"}[fault]
						want := fmt.Sprintf("exit:pid:%d:%s", child.ID, reason)
						n := 0
						for _, x := range o.notifs {
							if x == want {
								n++
							} else {
								nw.ex.Fail("wrong-reason", "the parent of the remotely spawned child %s received %q, expected %q", child, x, want)
							}
						}
						if r := nw.a.recs["L"]; len(r.term) > 0 {
							n++
						}
						switch {
						case n == 0:
							nw.ex.Fail("request-ok-no-notification", "%s with LinkChild returned %s; then %s happened and the parent was never notified", how, child, fault)
						case n > 1:
							nw.ex.Fail("notified-twice", "%s with LinkChild, %s: %d notifications %v", how, fault, n, o.notifs)
						}
						nw.Out("notifs=%v", o.notifs)
					}
				})})
			}})
		}
	}

	// ---- requests in flight when the connection is lost --------------------------------------------
	for _, what := range []string{"call-answered", "call-unanswered", "send-important", "send"} {
		for _, fault := range []string{"cut", "peer-stops"} {
			what, fault := what, fault
			harn.Register(harn.Scenario{Property: "C14", Name: "inflight-" + what + "-" + fault, Run: func(c *harn.Ctx) *harn.Result {
				return harn.Explore(c, harn.Sched{QuickBound: 1, ThoroughBound: 2, Preempt: false, Cache: true, HorizonS: 30, Body: netBody(netOpts{}, func(nw *NetWorld) {
					rpid := nw.b.spawnProbe("R", probeCfg{onCall: func(p *probe, from gen.PID, ref gen.Ref, m any) (any, error) {
						if what == "call-unanswered" {
							return nil, nil
						}
						return "re:" + fmt.Sprint(m), nil
					}}, gen.ProcessOptions{})
					var err error
					var val any
					done := false
					nw.a.spawnProbe("C", probeCfg{onMsg: func(p *probe, from gen.PID, m any) error {
						switch what {
						case "call-answered", "call-unanswered":
							val, err = p.CallWithTimeout(rpid, "q", 2)
						case "send-important":
							err = p.SendImportant(rpid, "imp")
						case "send":
							err = p.Send(rpid, "plain")
						}
						done = true
						return nil
					}}, gen.ProcessOptions{})
					nw.connect()
					if nw.ex.Failed() {
						return
					}
					nw.ex.Thread("GO", func() { nw.a.n.Send(nw.a.pids["C"], "go") })
					nw.ex.ThreadLow("FAULT", func() {
						if fault == "cut" {
							nw.links[0].ca.Close()
						} else {
							nw.b.n.Stop()
						}
					})
					nw.Check = func() {
						if !done {
							info, _ := nw.a.n.ProcessInfo(nw.a.pids["C"])
							nw.ex.Fail("request-hangs", "the %s never returned after the connection was lost (caller state %s)", what, info.State)
						}
						got := append(handled(nw.b.recs["R"], "M:"), handled(nw.b.recs["R"], "C:")...)
						if len(got) > 1 {
							nw.ex.Fail("delivered-twice", "receiver handled %v", got)
						}
						if what == "call-answered" && err == nil && fmt.Sprint(val) != "re:q" {
							nw.ex.Fail("wrong-reply", "call returned %v", val)
						}
						// (when the peer node stops, a message may be acknowledged - it was placed in the mailbox - and
						// never handled, because its receiver is shut down first: only a cut keeps the receiver alive)
						if what == "send-important" && err == nil && len(got) != 1 && fault == "cut" {
							nw.ex.Fail("important-ok-not-delivered", "SendImportant returned nil but the receiver handled %v", got)
						}
						nw.Out("done=%v err=%v val=%v got=%v", done, err, val, got)
					}
				})})
			}})
		}
	}

	// ---- incarnations: identifiers of an earlier incarnation of a restarted node -------------------
	// (registered for C07 as well: a reply made for a request of the caller's previous incarnation must not
	// reach the process that reuses the caller's id and waits on a reference with the same counter)
	for _, reg := range [][2]string{{"C14", "incarnation-old-identifiers"}, {"C07", "late-reply-after-caller-node-restart"}} {
		reg := reg
		harn.Register(harn.Scenario{Property: reg[0], Name: reg[1], Run: func(c *harn.Ctx) *harn.Result {
			return harn.Explore(c, harn.Sched{QuickBound: 0, ThoroughBound: 1, Preempt: false, Cache: true, HorizonS: 60, Body: func(ex *vsched.Exec) string {
				na := startNetNode("a@localhost", netOpts{})
				nb1 := startNetNode("b@localhost", netOpts{})
				nw := &NetWorld{ex: ex}
				nw.a = &World{ex: ex, n: na, recs: map[string]*rec{}, pids: map[string]gen.PID{}, tag: "A-"}
				nw.b = &World{ex: ex, n: nb1, recs: map[string]*rec{}, pids: map[string]gen.PID{}, tag: "B1-"}
				// incarnation 1 of B: a target with alias and event, and a caller whose request A answers late
				nw.b.ex.Data["kind"] = "pid"
				old := nw.b.spawnTarget("T", "tname", "tev")
				var lateFrom gen.PID
				var lateRef gen.Ref
				nw.a.spawnProbe("S", probeCfg{onCall: func(p *probe, from gen.PID, ref gen.Ref, m any) (any, error) {
					lateFrom, lateRef = from, ref
					return nil, nil
				}}, gen.ProcessOptions{})
				nw.b.spawnProbe("CALLER", probeCfg{onMsg: func(p *probe, from gen.PID, m any) error {
					p.CallWithTimeout(nw.a.pids["S"], "old-q", 1)
					return nil
				}}, gen.ProcessOptions{})
				nw.connect()
				nw.b.Setup("oldcall", func() { nb1.Send(nw.b.pids["CALLER"], "go") })
				// B goes away and comes back under the same name with a later creation stamp
				nw.a.Setup("cut", func() { nw.links[0].ca.Close() })
				dropNode(nb1)
				ex.Now += 5e9
				nb2 := startNetNode("b@localhost", netOpts{})
				if nb2.creation == nb1.creation {
					ex.Fail("harness", "the restarted node has the same creation stamp")
				}
				nw.b = &World{ex: ex, n: nb2, recs: map[string]*rec{}, pids: map[string]gen.PID{}, tag: "B2-"}
				// incarnation 2: processes that reuse the same process ids, name, and wait for a reply
				nw.b.spawnTarget("T", "tname", "tev")
				var newRes any
				var newErr error
				nw.b.spawnProbe("CALLER", probeCfg{onMsg: func(p *probe, from gen.PID, m any) error {
					newRes, newErr = p.CallWithTimeout(nw.a.pids["S2"], "new-q", 2)
					return nil
				}}, gen.ProcessOptions{})
				nw.a.spawnProbe("S2", probeCfg{onCall: func(p *probe, from gen.PID, ref gen.Ref, m any) (any, error) { return nil, nil }}, gen.ProcessOptions{})
				nw.links = nil
				nw.connect()
				if ex.Failed() {
					return "handshake failed"
				}
				errs := map[string]error{}
				nw.a.spawnProbe("OP", probeCfg{trap: true, onMsg: func(p *probe, from gen.PID, m any) error {
					errs["send-pid"] = p.Send(old.pid, "to-old-pid")
					errs["send-alias"] = p.Send(old.alias, "to-old-alias")
					_, errs["call-pid"] = p.CallWithTimeout(old.pid, "call-old", 1)
					errs["link-pid"] = p.LinkPID(old.pid)
					errs["monitor-pid"] = p.MonitorPID(old.pid)
					errs["link-alias"] = p.LinkAlias(old.alias)
					errs["exit-pid"] = p.SendExit(old.pid, errX)
					errs["send-important-pid"] = p.SendImportant(old.pid, "important-to-old-pid")
					errs["send-important-alias"] = p.SendImportant(old.alias, "important-to-old-alias")
					errs["send-priority-pid"] = p.SendWithPriority(old.pid, "priority-to-old-pid", gen.MessagePriorityHigh)
					_, errs["call-alias"] = p.CallWithTimeout(old.alias, "call-old-alias", 1)
					_, errs["call-important-pid"] = p.CallImportant(old.pid, "call-important-old")
					errs["monitor-alias"] = p.MonitorAlias(old.alias)
					p.SetImportantDelivery(true)
					errs["send-pid-important-flag"] = p.Send(old.pid, "flagged-important-to-old-pid")
					p.SetImportantDelivery(false)
					errs["response-old-ref"] = p.SendResponse(lateFrom, lateRef, "late-reply-for-old-incarnation")
					errs["response-error-old-ref"] = p.SendResponseError(lateFrom, lateRef, errX)
					return nil
				}}, gen.ProcessOptions{})
				nw.b.Setup("newcall", func() { nb2.Send(nw.b.pids["CALLER"], "go") })
				ex.Thread("OPS", func() { na.Send(nw.a.pids["OP"], "go") })
				ex.Run()
				for k, e := range errs {
					if e != gen.ErrProcessIncarnation {
						ex.Fail("old-identifier-accepted", "%s with an identifier of the previous incarnation returned %v, expected %v", k, e, gen.ErrProcessIncarnation)
					}
				}
				for name, r := range nw.b.recs {
					for _, l := range r.log {
						if strings.Contains(l, "old") {
							ex.Fail("old-identifier-delivered", "process %s of the NEW incarnation handled %q", name, l)
						}
					}
					if len(r.term) > 0 {
						ex.Fail("old-identifier-delivered", "process %s of the new incarnation was terminated (%v) by an operation on an old identifier", name, r.term)
					}
				}
				if newErr == nil {
					ex.Fail("old-identifier-delivered", "the new incarnation's call (never answered) returned %v: a reply made for the old incarnation was accepted", newRes)
				}
				out := fmt.Sprintf("errs=%v new=%v/%v", errs, newRes, newErr)
				ex.Release()
				dropNode(na)
				dropNode(nb2)
				return out
			}})
		}})
	}
	// ---- the initiator disconnects while it is still dialling the further links of the pool ----------
	for _, who := range []string{"initiator"} {
		who := who
		harn.Register(harn.Scenario{Property: "C14", Name: "disconnect-while-pool-fills-by-" + who, Run: func(c *harn.Ctx) *harn.Result {
			return harn.Explore(c, harn.Sched{QuickBound: 1, ThoroughBound: 2, Preempt: false, Cache: true, HorizonS: 30, Body: netBody(netOpts{}, func(nw *NetWorld) {
				oa := remoteObserver(nw.a, "OA")
				ob := remoteObserver(nw.b, "OB")
				var errA, errB error
				monA, monB := false, false
				nw.connectDialing(func() {
					nw.a.n.Send(nw.a.pids["OA"], doMsg{func(p *probe) error { errA = p.MonitorNode(nw.b.n.Name()); monA = true; return nil }})
				}, func() {
					nw.b.n.Send(nw.b.pids["OB"], doMsg{func(p *probe) error { errB = p.MonitorNode(nw.a.n.Name()); monB = true; return nil }})
				})
				disconnected := false
				nw.ex.ThreadLow("DISC", func() {
					side, peer := nw.a.n, nw.b.n
					if who == "acceptor" {
						side, peer = nw.b.n, nw.a.n
					}
					// from the moment the first link serves the connection (the window between registering a
					// connection and joining its first link lies in code that this harness only mirrors)
					vsched.Block(vsched.OpUser, 0, func() bool { _, err := side.network.Node(peer.Name()); return err == nil && nw.pa != nil })
					if rn, err := side.network.Node(peer.Name()); err == nil {
						rn.Disconnect()
						disconnected = true
					}
				})
				nw.Check = func() {
					_, ea := nw.a.n.network.Node(nw.b.n.Name())
					_, eb := nw.b.n.network.Node(nw.a.n.Name())
					if disconnected && ea == nil && eb == nil {
						nw.ex.Fail("disconnect-without-effect", "Disconnect() was called on the %s's side; at quiescence both nodes still hold the connection (links %d)", who, len(nw.links))
					}
					if (ea == nil) != (eb == nil) {
						st := ""
						for i, l := range nw.links {
							st += fmt.Sprintf(" link%d closed=%v/%v", i, l.ca.Closed(), l.cb.Closed())
						}
						nw.ex.Fail("half-connected", "after the %s disconnected: a sees b: %v, b sees a: %v (links %d:%s)", who, ea == nil, eb == nil, len(nw.links), st)
					}
					for _, x := range []struct {
						o    *observer
						err  error
						done bool
						gone bool
						name string
					}{{oa, errA, monA, ea != nil, "a"}, {ob, errB, monB, eb != nil, "b"}} {
						if x.done && x.err == nil && x.gone && len(x.o.notifs) != 1 {
							nw.ex.Fail("node-down-count", "observer on %s monitors the peer node (acknowledged), the connection is gone, notifications: %v", x.name, x.o.notifs)
						}
						if x.done && x.err == nil && !x.gone && (ea != nil || eb != nil) && len(x.o.notifs) == 0 {
							nw.ex.Fail("node-down-missed", "observer on %s monitors the peer node; the peer has dropped the connection, this side still holds it and the observer was not told", x.name)
						}
					}
					nw.Out("a->b=%v b->a=%v oa=%v ob=%v links=%d", ea == nil, eb == nil, oa.notifs, ob.notifs, len(nw.links))
				}
			})})
		}})
	}

}

// ---- a local target watched from both nodes: the peer's requester goes with the connection, the local one stays
// and is told when the target goes away (C04; also C14: losing a connection removes the peer's relations only) ----
func init() {
	for _, kind := range []string{"pid", "name", "alias", "event"} {
		for _, rrel := range []string{"link", "monitor"} {
			for _, prop := range []string{"C04", "C14"} {
				kind, rrel, prop := kind, rrel, prop
				harn.Register(harn.Scenario{Property: prop, Name: fmt.Sprintf("watched-from-both-nodes-%s-remote-%s-cut-then-kill", kind, rrel), Run: func(c *harn.Ctx) *harn.Result {
					return harn.Explore(c, harn.Sched{QuickBound: 1, ThoroughBound: 2, Preempt: false, Cache: true, HorizonS: 30, Body: netBody(netOpts{}, func(nw *NetWorld) {
						nw.a.ex.Data["kind"] = kind
						t := nw.a.spawnTarget("T", "tname", "tev")
						o := nw.a.spawnObserver("O1")
						var e1, e2, e3 error
						nw.a.Do("O1", func(p *probe) error {
							e1 = request(p, "link", kind, t)
							e2 = request(p, "monitor", kind, t)
							return nil
						})
						remoteObserver(nw.b, "RB")
						nw.connect()
						if nw.ex.Failed() {
							return
						}
						nw.b.Do("RB", func(p *probe) error { e3 = request(p, rrel, kind, t); return nil })
						if e1 != nil || e2 != nil || e3 != nil {
							nw.ex.Fail("harness", "set-up requests failed: %v %v %v", e1, e2, e3)
							return
						}
						nw.ex.Thread("CUT", func() { nw.links[0].ca.Close() })
						nw.ex.ThreadLow("KILL", func() { nw.a.n.Kill(t.pid) })
						nw.Check = func() {
							tk := targetKey(kind, t)
							want := map[string]bool{"exit:" + tk + ":kill": true, "down:" + tk + ":kill": true}
							for _, x := range o.notifs {
								if !want[x] {
									nw.ex.Fail("foreign-notification", "local observer received %q (expected one exit and one down for %s with reason kill)", x, tk)
								}
								delete(want, x)
							}
							if len(want) > 0 {
								nw.ex.Fail("notification-missing", "a %s watched by a local process (link and monitor) and by a process on another node (%s): the connection was lost, then the target was killed; the local process got %v, still missing %v", kind, rrel, o.notifs, want)
							}
							nw.Out("notifs=%v", o.notifs)
						}
					})})
				}})
			}
		}
	}
}
