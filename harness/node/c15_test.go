//go:build verif

package node

// C15, node part: effective cookies of acceptors and routes, spawn / application-start permissions,
// flags and exposure of the requester's environment.
//
//  - hist-spawn-permissions / hist-appstart-permissions: breadth-first search over all histories of
//    Enable*/Disable* calls (with node lists drawn from {}, {a}, {b}, {a,b}) on the real tables; after
//    every history the real RouteSpawn / RouteApplicationStart is asked on behalf of the peers a, b and
//    c (never mentioned) and compared with a reference that knows who was explicitly enabled.
//  - endpoint-cookies: two real nodes over loopback TCP; every combination of node, acceptor and route
//    cookies, followed by one cookie change and a second attempt; connected iff the effective cookies
//    are equal, and then both ends report each other's name, incarnation, flags and size limit.
//  - remote-requests: every combination of the acceptor's flags, the permission table and the
//    requester's exposure switches, for process.RemoteSpawn, RemoteNode.Spawn and
//    RemoteNode.ApplicationStart over a real connection (in-memory links, real handshake and protocol).

import (
	"errors"
	"fmt"
	"os"
	"reflect"
	"sort"
	"strings"
	"sync"
	rt "time"
	"unsafe"

	"ergo.services/ergo/act"
	"ergo.services/ergo/gen"
	"ergo.services/ergo/net/handshake"
	"verif.local/vsched"
	"verif.local/vsched/harn"
)

// ---- a plain actor that publishes its environment --------------------------------------------------

type envActor struct {
	act.Actor
}

var (
	c15mu      sync.Mutex
	c15Spawned []map[gen.Env]any
)

func (e *envActor) Init(args ...any) error {
	c15mu.Lock()
	c15Spawned = append(c15Spawned, e.EnvList())
	c15mu.Unlock()
	return nil
}

func factoryEnvActor() gen.ProcessBehavior { return &envActor{} }

type envApp struct{}

func (envApp) Load(node gen.Node, args ...any) (gen.ApplicationSpec, error) {
	return gen.ApplicationSpec{Name: "rapp", Mode: gen.ApplicationModeTemporary,
		Group: []gen.ApplicationMemberSpec{{Name: "rapp_member", Factory: factoryEnvActor}}}, nil
}
func (envApp) Start(mode gen.ApplicationMode) {}
func (envApp) Terminate(reason error)         {}

func hasEnv(m map[gen.Env]any, name string) bool {
	for k := range m {
		if strings.EqualFold(string(k), name) {
			return true
		}
	}
	return false
}

// ---- permission histories -----------------------------------------------------------------------------

type permModel struct {
	present, anyone, touched bool
	allow, deny              map[gen.Atom]bool
}

func (m *permModel) may(p gen.Atom) bool {
	return m.present && (m.allow[p] || (m.anyone && !m.deny[p]))
}

// must: the cases in which every reading of the API grants the permission
func (m *permModel) must(p gen.Atom) bool {
	return m.present && (m.allow[p] || (m.anyone && !m.touched))
}

func permHistories(kind string) harn.OpSeqSpec {
	lists := map[string][]gen.Atom{"": nil, "a": {"a@h"}, "b": {"b@h"}, "ab": {"a@h", "b@h"}}
	var alphabet []string
	for _, op := range []string{"enable", "disable"} {
		for _, l := range []string{"", "a", "b", "ab"} {
			alphabet = append(alphabet, op+":"+l)
		}
	}
	peers := []gen.Atom{"a@h", "b@h", "c@h"}
	var n *node
	counter := 0
	spec := harn.OpSeqSpec{Alphabet: alphabet, DepthQuick: 4, DepthThorough: 6, NoDedupQuick: 3, NoDedupThorough: 4}
	spec.Run = func(hist []int, fail func(kind, format string, a ...any)) string {
		if n == nil {
			n = startNetNode("perm@localhost", netOpts{})
			if _, err := n.ApplicationLoad(envApp{}); err != nil {
				panic(err)
			}
		}
		// the tables are keyed by name: every history gets a name of its own on the one node
		counter++
		name := gen.Atom(fmt.Sprintf("name%d", counter))
		if kind == "appstart" {
			// the application has one name: start from an empty entry instead
			name = "rapp"
			n.network.DisableApplicationStart(name)
		}
		m := &permModel{allow: map[gen.Atom]bool{}, deny: map[gen.Atom]bool{}}
		var names []string
		for _, opi := range hist {
			op, l, _ := strings.Cut(alphabet[opi], ":")
			names = append(names, alphabet[opi])
			nodes := lists[l]
			var err error
			switch {
			case op == "enable" && kind == "spawn":
				err = n.network.EnableSpawn(name, factoryEnvActor, nodes...)
			case op == "enable":
				err = n.network.EnableApplicationStart(name, nodes...)
			case kind == "spawn":
				err = n.network.DisableSpawn(name, nodes...)
			default:
				err = n.network.DisableApplicationStart(name, nodes...)
			}
			wantErr := op == "disable" && !m.present
			if (err != nil) != wantErr {
				fail("permission-call-result", "after %v: %s returned %v", names, alphabet[opi], err)
			}
			switch {
			case op == "enable" && len(nodes) == 0:
				m.present, m.anyone, m.touched = true, true, false
				m.allow, m.deny = map[gen.Atom]bool{}, map[gen.Atom]bool{}
			case op == "enable":
				m.present, m.touched = true, true
				for _, x := range nodes {
					m.allow[x] = true
					delete(m.deny, x)
				}
			case op == "disable" && !m.present:
			case op == "disable" && len(nodes) == 0:
				*m = permModel{allow: map[gen.Atom]bool{}, deny: map[gen.Atom]bool{}}
			default:
				m.touched = true
				for _, x := range nodes {
					delete(m.allow, x)
					m.deny[x] = true
				}
			}
		}
		var granted []string
		for _, p := range peers {
			var err error
			if kind == "spawn" {
				var pid gen.PID
				pid, err = n.RouteSpawn(n.name, name, gen.ProcessOptionsExtra{ParentPID: n.corePID, ParentLeader: n.corePID}, p)
				if err == nil {
					n.Kill(pid)
				}
			} else {
				err = n.RouteApplicationStart(name, gen.ApplicationModeTemporary, gen.ApplicationOptionsExtra{CorePID: n.corePID}, p)
				if err == nil {
					n.ApplicationStopForce(name)
					for i := 0; i < 100000; i++ {
						if info, e := n.ApplicationInfo(name); e == nil && info.State == gen.ApplicationStateLoaded {
							break
						}
						rt.Sleep(5 * rt.Microsecond)
					}
				}
			}
			refused := err == gen.ErrNameUnknown || err == gen.ErrNotAllowed
			if err != nil && !refused {
				fail("permission-probe-error", "after %v: request of %s returned %v", names, p, err)
			}
			if !refused {
				granted = append(granted, string(p))
			}
			if !refused && !m.may(p) {
				fail("granted-without-permission", "after %v: %s on behalf of %s is carried out, but nothing enables it for that node (enabled for: %v, everyone: %v, disabled for: %v)",
					names, kind, p, keysOf(m.allow), m.anyone, keysOf(m.deny))
			}
			if refused && m.must(p) {
				fail("refused-although-enabled", "after %v: %s on behalf of %s is refused with %v although it is enabled for that node", names, kind, p, err)
			}
		}
		// the published tables never list a node that is not allowed
		info, _ := n.network.Info()
		if kind == "spawn" {
			for _, e := range info.EnabledSpawn {
				if e.Name == name {
					for _, x := range e.Nodes {
						if !m.may(x) {
							fail("listed-without-permission", "after %v: Info lists %s for %s", names, x, name)
						}
					}
				}
			}
		} else {
			for _, e := range info.EnabledApplicationStart {
				if e.Name == name {
					for _, x := range e.Nodes {
						if !m.may(x) {
							fail("listed-without-permission", "after %v: Info lists %s for %s", names, x, name)
						}
					}
				}
			}
		}
		return fmt.Sprintf("present=%v anyone=%v touched=%v allow=%v deny=%v granted=%v", m.present, m.anyone, m.touched, keysOf(m.allow), keysOf(m.deny), granted)
	}
	return spec
}

func keysOf(m map[gen.Atom]bool) []string {
	var out []string
	for k, v := range m {
		if v {
			out = append(out, string(k))
		}
	}
	sort.Strings(out)
	return out
}

// ---- real nodes over loopback TCP ----------------------------------------------------------------------

type tcpNodeCfg struct {
	cookie      string
	accCookie   string
	accFlags    gen.NetworkFlags
	flags       gen.NetworkFlags
	maxSize     int
	accMaxSize  int
	withAccept  bool
	creationGap bool
}

func startTCPNode(name string, cfg tcpNodeCfg) *node {
	opts := gen.NodeOptions{}
	opts.Network.Registrar = fakeRegistrar{}
	opts.Network.Cookie = cfg.cookie
	opts.Network.Flags = cfg.flags
	opts.Network.MaxMessageSize = cfg.maxSize
	opts.Log.DefaultLogger.Disable = true
	opts.Log.Level = gen.LogLevelDisabled
	// one link per connection: the scenario is about cookies, and disconnecting while further links are
	// still being dialled is a different matter (see C14)
	opts.Network.Handshake = handshake.Create(handshake.Options{PoolSize: 1})
	if cfg.withAccept {
		opts.Network.Mode = gen.NetworkModeEnabled
		base := uint16(21000 + (os.Getpid()%400)*50)
		opts.Network.Acceptors = []gen.AcceptorOptions{{Host: "127.0.0.1", Port: base, PortRange: base + 49, Cookie: cfg.accCookie, Flags: cfg.accFlags, MaxMessageSize: cfg.accMaxSize}}
	} else {
		opts.Network.Mode = gen.NetworkModeHidden
	}
	n, err := Start(gen.Atom(name), opts, gen.Version{})
	if err != nil {
		panic(err)
	}
	return n.(*node)
}

func eventually(cond func() bool) bool {
	for i := 0; i < 60000; i++ { // up to 30 s: only a failing condition waits that long
		if cond() {
			return true
		}
		rt.Sleep(500 * rt.Microsecond)
	}
	return cond()
}

func orDefault(f, d gen.NetworkFlags) gen.NetworkFlags {
	if f.Enable {
		return f
	}
	return d
}

func init() {
	harn.Register(harn.Scenario{Property: "C15", Name: "hist-spawn-permissions", Run: func(c *harn.Ctx) *harn.Result {
		return harn.OpSeq(c, permHistories("spawn"))
	}})
	harn.Register(harn.Scenario{Property: "C15", Name: "hist-appstart-permissions", Run: func(c *harn.Ctx) *harn.Result {
		return harn.OpSeq(c, permHistories("appstart"))
	}})

	// ---- effective cookies of acceptor and route -----------------------------------------------------
	changes := []string{"none", "B.node=x", "B.node=z", "B.acceptor=x", "B.acceptor=z", "A.node=x", "A.node=z"}
	for shard := 0; shard < 4; shard++ {
		shard := shard
		harn.Register(harn.Scenario{Property: "C15", Name: fmt.Sprintf("endpoint-cookies-%d", shard), Run: func(c *harn.Ctx) *harn.Result {
			r := harn.NewResult("enum")
			nodeCookies := []string{"x", "y"}
			ownCookies := []string{"", "x", "y", "z"}
			custom := gen.NetworkFlags{Enable: true, EnableRemoteSpawn: true, EnableImportantDelivery: true}
			idx := 0
			for _, cA := range nodeCookies {
				for _, rA := range ownCookies {
					for _, cB := range nodeCookies {
						for _, aB := range ownCookies {
							for _, change := range changes {
								idx++
								if idx%4 != shard {
									continue
								}
								// flags and size limits vary with the configuration index (every value with every role)
								var routeFlags, accFlags gen.NetworkFlags
								if idx%2 == 0 {
									routeFlags = custom
								}
								if idx%3 == 0 {
									accFlags = gen.NetworkFlags{Enable: true, EnableRemoteApplicationStart: true, EnableFragmentation: true}
								}
								nodeFlagsB := gen.NetworkFlags{Enable: true, EnableProxyAccept: true, EnableRemoteSpawn: true}
								// A's own flags differ from the library default, so that "route flags or else the node's"
								// is distinguishable from "route flags or else the default"
								nodeFlagsA := gen.NetworkFlags{Enable: true, EnableRemoteSpawn: true, EnableFragmentation: true, EnableProxyTransit: true}
								a := startTCPNode("a@localhost", tcpNodeCfg{cookie: cA, flags: nodeFlagsA, maxSize: 1000 + idx})
								b := startTCPNode("b@localhost", tcpNodeCfg{cookie: cB, accCookie: aB, withAccept: true, accFlags: accFlags, flags: nodeFlagsB, maxSize: 5000 + idx})
								port := b.network.acceptors[0].port
								route := gen.NetworkRoute{Route: gen.Route{Host: "127.0.0.1", Port: port}, Cookie: rA, Flags: routeFlags}
								effA := func() string {
									if rA != "" {
										return rA
									}
									return a.network.Cookie()
								}
								accOwn := aB
								effB := func() string {
									if accOwn != "" {
										return accOwn
									}
									return b.network.Cookie()
								}
								attempt := func(stage string) {
									r.Executions++
									desc := fmt.Sprintf("%s: A node cookie %q route cookie %q, B node cookie %q acceptor cookie %q (configured %q), change %s",
										stage, a.network.Cookie(), rA, b.network.Cookie(), accOwn, aB, change)
									rn, err := a.network.GetNodeWithRoute("b@localhost", route)
									want := effA() == effB()
									switch {
									case err == nil && !want:
										r.Fail("connected-with-different-cookies", "%s: connected although the initiator presents %q and the endpoint's cookie is %q", desc, effA(), effB())
										r.Outcomes["wrongly connected"]++
									case err != nil && want:
										r.Fail("same-cookie-refused", "%s: both present %q but the connection is refused: %v", desc, effA(), err)
										r.Outcomes["wrongly refused"]++
									case err != nil:
										r.Outcomes["refused"]++
										if _, e := b.network.Node("a@localhost"); e == nil {
											r.Fail("half-connected", "%s: the initiator was refused (%v) but the acceptor registered the connection", desc, err)
										}
									default:
										r.Outcomes["connected"]++
										var rb gen.RemoteNode
										if !eventually(func() bool { x, e := b.network.Node("a@localhost"); rb = x; return e == nil }) {
											r.Fail("half-connected", "%s: the initiator is connected but the acceptor never registered the connection", desc)
											break
										}
										ia, ib := rn.Info(), rb.Info()
										var bad []string
										chk := func(ok bool, f string, x ...any) {
											if !ok {
												bad = append(bad, fmt.Sprintf(f, x...))
											}
										}
										chk(rn.Name() == b.name && rb.Name() == a.name, "names %s / %s", rn.Name(), rb.Name())
										chk(rn.Creation() == b.creation && rb.Creation() == a.creation, "incarnations %d / %d (real %d / %d)", rn.Creation(), rb.Creation(), b.creation, a.creation)
										wantB := orDefault(accFlags, nodeFlagsB)
										wantA := orDefault(routeFlags, nodeFlagsA)
										chk(ia.NetworkFlags == wantB, "A sees flags %+v of B, B's endpoint has %+v", ia.NetworkFlags, wantB)
										chk(ib.NetworkFlags == wantA, "B sees flags %+v of A, A's route has %+v", ib.NetworkFlags, wantA)
										chk(ia.MaxMessageSize == 5000+idx && ib.MaxMessageSize == 1000+idx, "size limits %d / %d", ia.MaxMessageSize, ib.MaxMessageSize)
										if len(bad) > 0 {
											r.Fail("results-disagree", "%s: %s", desc, strings.Join(bad, "; "))
										}
										rn.Disconnect()
										if !eventually(func() bool {
											_, e1 := a.network.Node("b@localhost")
											_, e2 := b.network.Node("a@localhost")
											return e1 != nil && e2 != nil
										}) {
											r.Fail("harness-disconnect", "%s: connection did not go away", desc)
										}
									}
								}
								attempt("first attempt")
								if change != "none" {
									who, val, _ := strings.Cut(change, "=")
									switch who {
									case "B.node":
										b.network.SetCookie(val)
									case "A.node":
										a.network.SetCookie(val)
									case "B.acceptor":
										accs, _ := b.network.Acceptors()
										accs[0].SetCookie(val)
										accOwn = val
									}
									attempt("after " + change)
								}
								dropNode(a)
								dropNode(b)
							}
						}
					}
				}
			}
			r.States, r.Transitions, r.Distinct = r.Executions, r.Executions, len(r.Outcomes)
			return r
		}})
	}

	// ---- remote spawn / application start: flags, tables, exposure of the environment ---------------
	harn.Register(harn.Scenario{Property: "C15", Name: "remote-requests", Run: func(c *harn.Ctx) *harn.Result {
		r := harn.NewResult("enum")
		flagSets := map[string]gen.NetworkFlags{
			"all":        {Enable: true, EnableRemoteSpawn: true, EnableRemoteApplicationStart: true, EnableImportantDelivery: true},
			"no-spawn":   {Enable: true, EnableRemoteApplicationStart: true},
			"no-start":   {Enable: true, EnableRemoteSpawn: true},
			"no-neither": {Enable: true},
		}
		tables := []string{"absent", "anyone", "for-a", "for-other", "for-a-then-disabled"}
		requests := []string{"process.RemoteSpawn", "process.RemoteSpawnRegister", "node.Spawn", "node.ApplicationStart"}
		for _, fname := range []string{"all", "no-spawn", "no-start", "no-neither"} {
			for _, table := range tables {
				for _, expose := range []int{0, 1, 2, 3, 4, 5} {
					for _, req := range requests {
						fname, table, expose, req := fname, table, expose, req
						// expose == 4: a hostile requester that ignores the flags the acceptor announced (the
						// requester's copy of the peer's flags is overwritten): the acceptor's own check must hold
						// expose == 5: the requester forges the node of the parent process in a spawn request, naming a
						// node for which the name is enabled (it is not enabled for the requester itself)
						forged := expose == 5
						if forged {
							expose = 0
							if fname != "all" || table != "for-other" || req != "node.Spawn" {
								continue
							}
						}
						hostile := expose == 4
						if hostile {
							expose = 0
							if fname == "all" || (table != "anyone" && table != "for-a") || strings.HasPrefix(req, "process.") {
								continue
							}
						}
						flagsB := flagSets[fname]
						isStart := req == "node.ApplicationStart"
						r.Executions++
						desc := fmt.Sprintf("%s, B's flags %s, table %s, exposure spawn=%v start=%v, requester ignores the peer's flags: %v, forges the parent's node: %v", req, fname, table, expose&1 != 0, expose&2 != 0, hostile, forged)
						c15mu.Lock()
						c15Spawned = nil
						c15mu.Unlock()
						var reqErr error
						done := false
						o := netOpts{
							optA: func(o *gen.NodeOptions) {
								o.Env = map[gen.Env]any{"SECRET_OF_A": "classified"}
								o.Security.ExposeEnvRemoteSpawn = expose&1 != 0
								o.Security.ExposeEnvRemoteApplicationStart = expose&2 != 0
							},
							optB: func(o *gen.NodeOptions) { o.Network.Flags = flagsB },
						}
						fails, _ := vsched.RunOnce(30, netBody(o, func(nw *NetWorld) {
							bn := nw.b.n.network
							if _, err := nw.b.n.ApplicationLoad(envApp{}); err != nil {
								panic(err)
							}
							en := func(nodes ...gen.Atom) {
								if isStart {
									bn.EnableApplicationStart("rapp", nodes...)
								} else {
									bn.EnableSpawn("rproc", factoryEnvActor, nodes...)
								}
							}
							switch table {
							case "anyone":
								en()
							case "for-a":
								en("a@localhost")
							case "for-other":
								en("other@localhost")
							case "for-a-then-disabled":
								en("a@localhost", "other@localhost")
								if isStart {
									bn.DisableApplicationStart("rapp", "a@localhost")
								} else {
									bn.DisableSpawn("rproc", "a@localhost")
								}
							}
							nw.a.spawnProbe("R", probeCfg{}, gen.ProcessOptions{})
							nw.connect()
							if nw.ex.Failed() {
								return
							}
							if hostile {
								f := reflect.ValueOf(nw.pa).Elem().FieldByName("peer_flags")
								if !f.IsValid() {
									nw.ex.Fail("harness", "proto connection has no field peer_flags")
									return
								}
								*(*gen.NetworkFlags)(unsafe.Pointer(f.UnsafeAddr())) = gen.NetworkFlags{Enable: true, EnableRemoteSpawn: true, EnableRemoteApplicationStart: true}
							}
							nw.ex.Thread("REQ", func() {
								if forged {
									// the requester claims that the parent process lives on a node that IS allowed
									other := gen.PID{Node: "other@localhost", ID: 1001, Creation: nw.a.n.creation}
									_, reqErr = nw.pa.RemoteSpawn("rproc", gen.ProcessOptionsExtra{ParentPID: other, ParentLeader: other})
									done = true
									return
								}
								switch req {
								case "process.RemoteSpawn", "process.RemoteSpawnRegister":
									nw.a.n.Send(nw.a.pids["R"], doMsg{func(p *probe) error {
										if req == "process.RemoteSpawn" {
											_, reqErr = p.RemoteSpawn("b@localhost", "rproc", gen.ProcessOptions{})
										} else {
											_, reqErr = p.RemoteSpawnRegister("b@localhost", "rproc", "regname", gen.ProcessOptions{})
										}
										done = true
										return nil
									}})
								default:
									rn, err := nw.a.n.network.Node("b@localhost")
									if err != nil {
										nw.ex.Fail("harness", "no connection: %v", err)
										return
									}
									if isStart {
										reqErr = rn.ApplicationStart("rapp", gen.ApplicationOptions{})
									} else {
										_, reqErr = rn.Spawn("rproc", gen.ProcessOptions{})
									}
									done = true
								}
							})
						}))
						for _, f := range fails {
							r.Fail(f.Kind, "%s: %s", desc, f.Detail)
						}
						if !done {
							r.Fail("request-never-returned", "%s: the request did not return within the horizon", desc)
							continue
						}
						allowedByFlags := (isStart && flagsB.EnableRemoteApplicationStart) || (!isStart && flagsB.EnableRemoteSpawn)
						allowedByTable := table == "anyone" || table == "for-a"
						c15mu.Lock()
						spawned := append([]map[gen.Env]any{}, c15Spawned...)
						c15mu.Unlock()
						outcome := "refused"
						switch {
						case (reqErr == nil || len(spawned) > 0) && !(allowedByFlags && allowedByTable):
							r.Fail("remote-request-carried-out-without-permission", "%s: result %v, %d process(es) started on B", desc, reqErr, len(spawned))
						case reqErr != nil && allowedByFlags && allowedByTable:
							r.Fail("remote-request-refused-although-enabled", "%s: result %v", desc, reqErr)
						case reqErr == nil:
							outcome = "carried out"
							if len(spawned) != 1 {
								r.Fail("remote-request-result", "%s: success reported, %d process(es) started on B", desc, len(spawned))
								break
							}
							exposed := (isStart && expose&2 != 0) || (!isStart && expose&1 != 0)
							got := hasEnv(spawned[0], "SECRET_OF_A")
							if got && !exposed {
								r.Fail("environment-exposed", "%s: the process started on B carries the requester's environment %v although exposure is off", desc, spawned[0])
							}
							if !got && exposed {
								r.Fail("environment-not-passed", "%s: exposure is on but the process started on B has environment %v", desc, spawned[0])
							}
							if got {
								outcome += " with environment"
							}
						}
						r.Outcomes[outcome]++
					}
				}
			}
		}
		r.States, r.Transitions, r.Distinct = r.Executions, r.Executions, len(r.Outcomes)
		return r
	}})
	_ = errors.New
}
