//go:build verif

package node

import (
	"fmt"
	"sort"
	"strings"

	"ergo.services/ergo/gen"
	"verif.local/vsched"
	"verif.local/vsched/harn"
)

// C17 — application lifecycle and start modes.

type appB struct {
	w       *World
	name    gen.Atom
	mode    gen.ApplicationMode
	members []string // probe names, in spec order
	deps    []gen.Atom
	failing string // member whose Init fails
	selfend string // member that ends (abnormally) from a message it sends to itself in Init
	starts  int
	terms   []string
	order   *[]string // shared log of member inits (start order across applications)
}

func (a *appB) Load(node gen.Node, args ...any) (gen.ApplicationSpec, error) {
	spec := gen.ApplicationSpec{Name: a.name, Mode: a.mode}
	spec.Depends.Applications = a.deps
	for _, m := range a.members {
		m := m
		spec.Group = append(spec.Group, gen.ApplicationMemberSpec{
			Name: gen.Atom(m),
			Factory: func() gen.ProcessBehavior {
				r := a.w.recs[m]
				if r == nil {
					r = &rec{name: m}
					a.w.recs[m] = r
				}
				return &probe{cfg: probeCfg{rec: r, onMsg: failer, onInit: func(p *probe) error {
					a.w.pids[m] = p.PID()
					*a.order = append(*a.order, m)
					if m == a.failing {
						return errE
					}
					if m == a.selfend {
						p.Send(p.PID(), "fail")
					}
					return nil
				}}}
			},
		})
	}
	return spec, nil
}
func (a *appB) Start(mode gen.ApplicationMode) { a.starts++ }
func (a *appB) Terminate(reason error)         { a.terms = append(a.terms, reason.Error()) }

func (w *World) memberAlive(m string) bool {
	pid, ok := w.pids[m]
	if !ok {
		return false
	}
	_, err := w.n.ProcessInfo(pid)
	return err == nil
}

func init() {
	modes := map[string]gen.ApplicationMode{"temporary": gen.ApplicationModeTemporary, "transient": gen.ApplicationModeTransient, "permanent": gen.ApplicationModePermanent}
	// ---- histories ---------------------------------------------------------------------------------
	for mname, mode := range modes {
		mname, mode := mname, mode
		alphabet := []string{"start", "stop", "stopforce", "m1.normal", "m1.crash", "m2.normal", "m2.crash", "m2.kill", "unload-load"}
		spec := harn.OpSeqSpec{Alphabet: alphabet, DepthQuick: 6, DepthThorough: 8, NoDedupQuick: 4, NoDedupThorough: 5}
		spec.Run = func(hist []int, fail func(kind, format string, a ...any)) string {
			key := ""
			fails, _ := vsched.RunOnce(20, nodeBody(func(w *World) {
				var order []string
				app := &appB{w: w, name: "app", mode: mode, members: []string{"m1", "m2"}, order: &order}
				if _, err := w.n.ApplicationLoad(app); err != nil {
					panic(err)
				}
				running := false
				alive := map[string]bool{}
				wantStarts, wantTerms := 0, 0
				lastCause := ""
				for step, opi := range hist {
					op := alphabet[opi]
					here := namesOf(alphabet, hist[:step+1])
					w.nsetup++
					tname := fmt.Sprintf("op%d", w.nsetup)
					var err error
					returned := false
					stopApp := func(cause string) {
						running = false
						alive["m1"], alive["m2"] = false, false
						wantTerms++
						lastCause = cause
					}
					switch op {
					case "start":
						order = order[:0]
						w.Setup(tname, func() { err = w.n.ApplicationStart("app", gen.ApplicationOptions{}); returned = true })
						if running {
							if err != gen.ErrApplicationRunning {
								fail("start-result", "after %v: start of a running application returned %v", here, err)
							}
						} else {
							if err != nil {
								fail("start-result", "after %v: start returned %v", here, err)
							}
							if strings.Join(order, ",") != "m1,m2" {
								fail("start-order", "after %v: members were started in the order %v", here, order)
							}
							running = true
							alive["m1"], alive["m2"] = true, true
							wantStarts++
						}
					case "stop", "stopforce":
						w.Setup(tname, func() {
							if op == "stop" {
								err = w.n.ApplicationStop("app")
							} else {
								err = w.n.ApplicationStopForce("app")
							}
							returned = true
						})
						if !returned {
							fail("stop-hangs", "after %v: %s did not return", here, op)
							return
						}
						if err != nil {
							fail("stop-result", "after %v: %s returned %v", here, op, err)
						}
						if running {
							if op == "stop" {
								stopApp("shutdown")
							} else {
								stopApp("kill")
							}
						}
					case "unload-load":
						err = w.n.ApplicationUnload("app")
						if running {
							if err == nil {
								fail("unload-running", "after %v: a running application was unloaded", here)
							}
						} else {
							if err != nil {
								fail("unload-result", "after %v: unload of a stopped application returned %v", here, err)
							}
							if _, err := w.n.ApplicationLoad(app); err != nil {
								fail("reload-result", "after %v: load after unload returned %v", here, err)
							}
						}
					default:
						m, what, _ := strings.Cut(op, ".")
						if !alive[m] {
							return
						}
						w.Setup(tname, func() {
							switch what {
							case "normal":
								w.n.Send(w.pids[m], "normal")
							case "crash":
								w.n.Send(w.pids[m], "fail")
							case "kill":
								w.n.Kill(w.pids[m])
							}
						})
						alive[m] = false
						reason := map[string]string{"normal": "normal", "crash": "E", "kill": "kill"}[what]
						abnormal := what != "normal"
						last := !alive["m1"] && !alive["m2"]
						switch {
						case mode == gen.ApplicationModePermanent, mode == gen.ApplicationModeTransient && abnormal:
							stopApp(reason)
						case last:
							stopApp("normal")
							if mode == gen.ApplicationModeTemporary {
								lastCause = "" // the statement is silent about the reason in temporary mode
							}
						}
					}
					// oracle on the state reached
					info, ierr := w.n.ApplicationInfo("app")
					if ierr != nil {
						fail("info-error", "after %v: ApplicationInfo: %v", here, ierr)
						return
					}
					wantState := gen.ApplicationStateLoaded
					if running {
						wantState = gen.ApplicationStateRunning
					}
					if info.State != wantState {
						fail("app-state", "after %v: application state is %s, expected %s (members alive: m1=%v m2=%v)", here, info.State, wantState, w.memberAlive("m1"), w.memberAlive("m2"))
					}
					for _, m := range []string{"m1", "m2"} {
						if w.memberAlive(m) != alive[m] {
							k := "member-left-running"
							if alive[m] {
								k = "member-missing"
							}
							fail(k, "after %v: member %s alive=%v, expected %v", here, m, w.memberAlive(m), alive[m])
						}
					}
					if app.starts != wantStarts {
						fail("start-callback-count", "after %v: Start callback ran %d times, expected %d", here, app.starts, wantStarts)
					}
					if len(app.terms) != wantTerms {
						fail("terminate-callback-count", "after %v: Terminate callback ran %d times (%v), expected %d", here, len(app.terms), app.terms, wantTerms)
					} else if wantTerms > 0 && lastCause != "" && app.terms[wantTerms-1] != lastCause {
						fail("terminate-reason", "after %v: Terminate got %q, the cause was %q", here, app.terms[wantTerms-1], lastCause)
					}
				}
				key = fmt.Sprintf("running=%v m1=%v m2=%v", running, alive["m1"], alive["m2"])
			}))
			for _, f := range fails {
				fail(f.Kind, "%s", f.Detail)
			}
			return key
		}
		harn.Register(harn.Scenario{Property: "C17", Name: "hist-" + mname, Run: func(c *harn.Ctx) *harn.Result { return harn.OpSeq(c, spec) }})
	}

	// ---- start-up: dependencies first, members in order, failed start leaves nothing ------------
	harn.Register(harn.Scenario{Property: "C17", Name: "start-dependencies-and-failures", Run: func(c *harn.Ctx) *harn.Result {
		r := harn.NewResult("opseq")
		graphs := map[string]map[string][]gen.Atom{
			"none":    {"A": nil, "B": nil, "C": nil},
			"A>B":     {"A": {"B"}, "B": nil, "C": nil},
			"A>B>C":   {"A": {"B"}, "B": {"C"}, "C": nil},
			"A>{B,C}": {"A": {"B", "C"}, "B": nil, "C": nil},
		}
		var gnames []string
		for g := range graphs {
			gnames = append(gnames, g)
		}
		sort.Strings(gnames)
		for _, g := range gnames {
			for _, failing := range []string{"", "a2", "b1", "c2"} {
				g, failing := g, failing
				fails, out := vsched.RunOnce(20, nodeBody(func(w *World) {
					var order []string
					apps := map[string]*appB{}
					for _, an := range []string{"A", "B", "C"} {
						l := strings.ToLower(an)
						apps[an] = &appB{w: w, name: gen.Atom(an), mode: gen.ApplicationModeTemporary, members: []string{l + "1", l + "2"}, deps: graphs[g][an], failing: failing, order: &order}
						if _, err := w.n.ApplicationLoad(apps[an]); err != nil {
							panic(err)
						}
					}
					var err error
					w.Setup("start", func() { err = w.n.ApplicationStart("A", gen.ApplicationOptions{}) })
					// expected set of applications that A needs (transitively), dependencies first
					var need []string
					var visit func(a string)
					seen := map[string]bool{}
					visit = func(a string) {
						if seen[a] {
							return
						}
						seen[a] = true
						for _, d := range graphs[g][a] {
							visit(string(d))
						}
						need = append(need, a)
					}
					visit("A")
					failedApp := ""
					if failing != "" {
						failedApp = strings.ToUpper(failing[:1])
					}
					expectErr := failedApp != "" && seen[failedApp]
					if (err != nil) != expectErr {
						w.ex.Fail("start-result", "graph %s, failing member %q: ApplicationStart(A) returned %v", g, failing, err)
					}
					pos := map[string]int{}
					for i, m := range order {
						pos[m] = i + 1
					}
					for _, a := range need {
						l := strings.ToLower(a)
						info, _ := w.n.ApplicationInfo(gen.Atom(a))
						if a == failedApp {
							if info.State != gen.ApplicationStateLoaded {
								w.ex.Fail("failed-start-state", "graph %s: %s failed to start but its state is %s", g, a, info.State)
							}
							for _, m := range []string{l + "1", l + "2"} {
								if w.memberAlive(m) {
									w.ex.Fail("failed-start-member-running", "graph %s: start of %s failed (member %s) but member %s keeps running", g, a, failing, m)
								}
							}
							if apps[a].starts != 0 {
								w.ex.Fail("start-callback-count", "graph %s: Start callback of the failed application %s ran", g, a)
							}
							continue
						}
						if expectErr {
							continue // applications started before the failure may stay up
						}
						if info.State != gen.ApplicationStateRunning || apps[a].starts != 1 {
							w.ex.Fail("dependency-not-started", "graph %s: %s state=%s starts=%d after ApplicationStart(A) returned %v", g, a, info.State, apps[a].starts, err)
						}
						if pos[l+"1"] == 0 || pos[l+"2"] == 0 || pos[l+"1"] > pos[l+"2"] {
							w.ex.Fail("start-order", "graph %s: members of %s started in order %v", g, a, order)
						}
						for _, d := range graphs[g][a] {
							dl := strings.ToLower(string(d))
							if pos[dl+"2"] == 0 || pos[dl+"2"] > pos[l+"1"] {
								w.ex.Fail("dependency-order", "graph %s: %s depends on %s but start order was %v", g, a, d, order)
							}
						}
					}
					// a later start works after the failure is removed
					if expectErr {
						for _, a := range apps {
							a.failing = ""
						}
						var err2 error
						w.Setup("restart", func() { err2 = w.n.ApplicationStart("A", gen.ApplicationOptions{}) })
						if err2 != nil {
							w.ex.Fail("restart-after-failed-start", "graph %s: start after a failed start returned %v", g, err2)
						}
					}
					w.Out("graph=%s failing=%s err=%v order=%v", g, failing, err, order)
				}))
				r.Executions++
				r.Transitions++
				r.Outcomes[out]++
				for _, f := range fails {
					r.Fail(f.Kind, "%s", f.Detail)
				}
			}
		}
		r.States = len(r.Outcomes)
		r.Distinct = len(r.Outcomes)
		for o := range r.Outcomes {
			if len(r.Samples) < 3 {
				r.Samples = append(r.Samples, o)
			}
		}
		return r
	}})

	// ---- races (Engine A) ---------------------------------------------------------------------------
	race := func(name string, mode gen.ApplicationMode, qb, tb int, started bool, build func(w *World, app *appB) func()) {
		harn.Register(harn.Scenario{Property: "C17", Name: name, Run: func(c *harn.Ctx) *harn.Result {
			return harn.Explore(c, harn.Sched{QuickBound: qb, ThoroughBound: tb, Preempt: false, Cache: true, HorizonS: 20, Body: nodeBody(func(w *World) {
				var order []string
				app := &appB{w: w, name: "app", mode: mode, members: []string{"m1", "m2"}, order: &order}
				if _, err := w.n.ApplicationLoad(app); err != nil {
					panic(err)
				}
				if started {
					var err error
					w.Setup("start", func() { err = w.n.ApplicationStart("app", gen.ApplicationOptions{}) })
					if err != nil {
						panic(err)
					}
				}
				extra := build(w, app)
				w.Check = func() {
					info, ierr := w.n.ApplicationInfo("app")
					a1, a2 := w.memberAlive("m1"), w.memberAlive("m2")
					if ierr != nil {
						// unloaded: nothing of it may be left and its last run must have been closed properly
						if a1 || a2 {
							w.ex.Fail("unloaded-with-members-running", "the application is unloaded (%v) but members are alive: m1=%v m2=%v", ierr, a1, a2)
						}
						if len(app.terms) != app.starts {
							w.ex.Fail("terminate-callback-count", "application is unloaded: Start ran %d times, Terminate %d times (%v)", app.starts, len(app.terms), app.terms)
						}
					}
					if info.State == gen.ApplicationStateLoaded {
						if a1 || a2 {
							w.ex.Fail("member-left-running", "application is down (loaded) but members alive: m1=%v m2=%v", a1, a2)
						}
						if len(app.terms) != app.starts {
							w.ex.Fail("terminate-callback-count", "application is down: Start ran %d times, Terminate %d times (%v)", app.starts, len(app.terms), app.terms)
						}
					}
					if info.State == gen.ApplicationStateRunning {
						if len(app.terms) != app.starts-1 {
							w.ex.Fail("terminate-callback-count", "application is running: Start ran %d times, Terminate %d times", app.starts, len(app.terms))
						}
						for _, pid := range info.Group {
							if _, err := w.n.ProcessInfo(pid); err != nil {
								w.ex.Fail("running-with-dead-member", "application is running but its group lists %s, which has terminated", pid)
							}
						}
					}
					if info.State == gen.ApplicationStateStopping {
						w.ex.Fail("stuck-stopping", "application is still 'stopping' at quiescence (m1=%v m2=%v)", a1, a2)
					}
					if extra != nil {
						extra()
					}
					w.Out("state=%s m1=%v m2=%v starts=%d terms=%v", info.State, a1, a2, app.starts, app.terms)
				}
			})})
		}})
	}
	for mname, mode := range modes {
		mode := mode
		race("race-die-die-"+mname, mode, 2, 3, true, func(w *World, app *appB) func() {
			w.ex.Thread("D1", func() { w.n.Send(w.pids["m1"], "fail") })
			w.ex.Thread("D2", func() { w.n.Send(w.pids["m2"], "fail") })
			return func() {
				if info, _ := w.n.ApplicationInfo("app"); info.State != gen.ApplicationStateLoaded {
					w.ex.Fail("app-state", "both members crashed but the application state is %s", info.State)
				}
			}
		})
		race("race-stop-crash-"+mname, mode, 2, 3, true, func(w *World, app *appB) func() {
			var err error
			ret := false
			w.ex.Thread("ST", func() { err = w.n.ApplicationStop("app"); ret = true })
			w.ex.Thread("D1", func() { w.n.Send(w.pids["m1"], "fail") })
			return func() {
				if !ret {
					w.ex.Fail("stop-hangs", "ApplicationStop did not return")
				}
				if err == nil && (w.memberAlive("m1") || w.memberAlive("m2")) {
					w.ex.Fail("stop-ok-member-running", "ApplicationStop returned nil while a member is still running")
				}
				if info, _ := w.n.ApplicationInfo("app"); err == nil && info.State != gen.ApplicationStateLoaded {
					w.ex.Fail("stop-ok-not-stopped", "ApplicationStop returned nil but the state is %s", info.State)
				}
			}
		})
	}
	race("race-start-start", gen.ApplicationModeTemporary, 2, 3, false, func(w *World, app *appB) func() {
		var e1, e2 error
		w.ex.Thread("S1", func() { e1 = w.n.ApplicationStart("app", gen.ApplicationOptions{}) })
		w.ex.Thread("S2", func() { e2 = w.n.ApplicationStart("app", gen.ApplicationOptions{}) })
		return func() {
			if (e1 == nil) == (e2 == nil) {
				w.ex.Fail("double-start", "two concurrent starts returned %v and %v", e1, e2)
			}
			if app.starts != 1 {
				w.ex.Fail("start-callback-count", "Start callback ran %d times", app.starts)
			}
		}
	})
	// the last two members die concurrently and the application is started again as soon as it is 'loaded'
	for mname, mode := range modes {
		mode := mode
		race("race-die-die-restart-"+mname, mode, 2, 3, true, func(w *World, app *appB) func() {
			var er error
			restarted := false
			// the pids of THIS run (a restart re-uses the names m1, m2 for new processes)
			p1, p2 := w.pids["m1"], w.pids["m2"]
			w.ex.Thread("D1", func() { w.n.Send(p1, "fail") })
			w.ex.Thread("D2", func() { w.n.Send(p2, "fail") })
			w.ex.Thread("RS", func() {
				vsched.Block(vsched.OpUser, 0, func() bool {
					info, err := w.n.ApplicationInfo("app")
					return err == nil && info.State == gen.ApplicationStateLoaded
				})
				er = w.n.ApplicationStart("app", gen.ApplicationOptions{})
				restarted = true
			})
			return func() {
				info, _ := w.n.ApplicationInfo("app")
				if restarted && er == nil && info.State != gen.ApplicationStateRunning {
					w.ex.Fail("restarted-run-ended-by-stale-termination", "the application was started again (nil) after both members had died; nothing happened to the new run, yet its state is %s, Terminate ran %d times for %d starts", info.State, len(app.terms), app.starts)
				}
				w.Out("restart=%v", er)
			}
		})
	}
	// a forced stop while a member is busy in a callback: success is reported only once the application is down
	for mname, mode := range modes {
		mode := mode
		race("stopforce-busy-member-"+mname, mode, 1, 2, true, func(w *World, app *appB) func() {
			g := &vsched.Gate{}
			w.Setup("park-m2", func() { w.n.Send(w.pids["m2"], g) })
			var err error
			ret := false
			var stateAtReturn gen.ApplicationState
			var aliveAtReturn bool
			w.ex.Thread("SF", func() {
				err = w.n.ApplicationStopForce("app")
				info, _ := w.n.ApplicationInfo("app")
				stateAtReturn = info.State
				aliveAtReturn = w.memberAlive("m1") || w.memberAlive("m2")
				ret = true
			})
			w.ex.ThreadLow("OPEN", func() { g.Open() })
			return func() {
				if !ret {
					w.ex.Fail("stop-hangs", "ApplicationStopForce did not return")
					return
				}
				if err == nil && (stateAtReturn != gen.ApplicationStateLoaded || aliveAtReturn) {
					w.ex.Fail("stop-ok-not-stopped", "ApplicationStopForce returned nil while the state was %s and members alive=%v (a member was busy in a callback)", stateAtReturn, aliveAtReturn)
				}
				w.Out("err=%v", err)
			}
		})
	}
	// the causing reason survives later deaths: m2 is busy in a callback when m1 crashes with E (the application
	// starts stopping); m2 then fails with X instead of obeying the shutdown request
	for mname, mode := range modes {
		mode := mode
		race("second-crash-while-stopping-"+mname, mode, 1, 2, true, func(w *World, app *appB) func() {
			g := &vsched.Gate{}
			w.Setup("park-m2", func() { w.n.Send(w.pids["m2"], g) })
			w.Setup("crash-m1", func() { w.n.Send(w.pids["m1"], "fail") })
			w.ex.Thread("OPEN", func() { g.Open() })
			return func() {
				if len(app.terms) != 1 {
					return // counted by the common oracle
				}
				// temporary: the application ends with its last member, the statement does not fix the reason
				if mode != gen.ApplicationModeTemporary && app.terms[0] != "E" {
					w.ex.Fail("terminate-reason", "m1 failed with E, which made the %s application stop; m2 failed with X while it was stopping; Terminate got %q", mode, app.terms[0])
				}
				w.Out("terms=%v", app.terms)
			}
		})
	}
	// unload against a stop in progress, a crash-triggered stop and a start
	for mname, mode := range modes {
		mode := mode
		race("race-stop-unload-"+mname, mode, 2, 3, true, func(w *World, app *appB) func() {
			var es, eu error
			w.ex.Thread("ST", func() { es = w.n.ApplicationStop("app") })
			w.ex.Thread("UL", func() { eu = w.n.ApplicationUnload("app") })
			return func() { w.Out("stop=%v unload=%v", es, eu) }
		})
		race("race-crash-unload-"+mname, mode, 2, 3, true, func(w *World, app *appB) func() {
			var eu error
			w.ex.Thread("D1", func() { w.n.Send(w.pids["m1"], "fail") })
			w.ex.Thread("UL", func() { eu = w.n.ApplicationUnload("app") })
			return func() { w.Out("unload=%v", eu) }
		})
	}
	race("race-start-unload", gen.ApplicationModeTemporary, 2, 3, false, func(w *World, app *appB) func() {
		var es, eu error
		w.ex.Thread("S1", func() { es = w.n.ApplicationStart("app", gen.ApplicationOptions{}) })
		w.ex.Thread("UL", func() { eu = w.n.ApplicationUnload("app") })
		return func() {
			if es == nil && eu == nil {
				w.ex.Fail("started-and-unloaded", "ApplicationStart and ApplicationUnload both succeeded")
			}
			w.Out("start=%v unload=%v", es, eu)
		}
	})
	race("race-stop-stop", gen.ApplicationModeTemporary, 2, 3, true, func(w *World, app *appB) func() {
		var e1, e2 error
		w.ex.Thread("S1", func() { e1 = w.n.ApplicationStop("app") })
		w.ex.Thread("S2", func() { e2 = w.n.ApplicationStop("app") })
		return func() {
			for _, e := range []error{e1, e2} {
				if e == nil && (w.memberAlive("m1") || w.memberAlive("m2")) {
					w.ex.Fail("stop-ok-member-running", "a stop call returned nil while a member is still running (%v, %v)", e1, e2)
				}
			}
		}
	})
	// a member that ends at once (from a message it sent to itself in Init) while the start is in progress
	for mname, mode := range modes {
		mode := mode
		race("race-start-member-dies-"+mname, mode, 2, 3, false, func(w *World, app *appB) func() {
			app.selfend = "m1"
			var err error
			w.ex.Thread("S1", func() { err = w.n.ApplicationStart("app", gen.ApplicationOptions{}) })
			return func() {
				info, _ := w.n.ApplicationInfo("app")
				if mode != gen.ApplicationModeTemporary && info.State == gen.ApplicationStateRunning {
					w.ex.Fail("member-death-missed", "member m1 terminated abnormally during start-up, the %s application is still running (start returned %v)", mode, err)
				}
			}
		})
	}
}
