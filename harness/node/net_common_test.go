//go:build verif

package node

import (
	"fmt"
	"net"
	"strings"

	"ergo.services/ergo/gen"
	"verif.local/vsched"
	"verif.local/vsched/vconn"
)

// ---- two real nodes in one process, joined by in-memory links -------------------------------

type fakeRegistrar struct{}

func (fakeRegistrar) Register(gen.NodeRegistrar, gen.RegisterRoutes) (gen.StaticRoutes, error) {
	return gen.StaticRoutes{}, nil
}
func (fakeRegistrar) Resolver() gen.Resolver                              { return fakeResolver{} }
func (fakeRegistrar) RegisterProxy(gen.Atom) error                        { return gen.ErrUnsupported }
func (fakeRegistrar) UnregisterProxy(gen.Atom) error                      { return gen.ErrUnsupported }
func (fakeRegistrar) RegisterApplicationRoute(gen.ApplicationRoute) error { return nil }
func (fakeRegistrar) UnregisterApplicationRoute(gen.Atom) error           { return nil }
func (fakeRegistrar) Nodes() ([]gen.Atom, error)                          { return nil, nil }
func (fakeRegistrar) Config(...string) (map[string]any, error)            { return nil, gen.ErrUnsupported }
func (fakeRegistrar) ConfigItem(string) (any, error)                      { return nil, gen.ErrUnsupported }
func (fakeRegistrar) Event() (gen.Event, error)                           { return gen.Event{}, gen.ErrUnsupported }
func (fakeRegistrar) Info() gen.RegistrarInfo                             { return gen.RegistrarInfo{Server: "fake"} }
func (fakeRegistrar) Terminate()                                          {}
func (fakeRegistrar) Version() gen.Version                                { return gen.Version{Name: "fake"} }

type fakeResolver struct{}

func (fakeResolver) Resolve(gen.Atom) ([]gen.Route, error)           { return nil, gen.ErrNoRoute }
func (fakeResolver) ResolveProxy(gen.Atom) ([]gen.ProxyRoute, error) { return nil, gen.ErrNoRoute }
func (fakeResolver) ResolveApplication(gen.Atom) ([]gen.ApplicationRoute, error) {
	return nil, gen.ErrNoRoute
}

type netOpts struct {
	maxMessageSize int // of node B (the receiver)
	poolSize       int
	skipA, skipB   int // number of dummy processes spawned first on each node (to reach particular pid residues)
	optA, optB     func(o *gen.NodeOptions)
	isA            bool
	atomMapA       map[gen.Atom]gen.Atom // route.AtomMapping of the initiator (node A) for this connection
	samePids       bool                  // keep the process ids of the two nodes in step (both start at 1001)
}

func startNetNode(name string, o netOpts) *node {
	opts := gen.NodeOptions{}
	opts.Network.Mode = gen.NetworkModeHidden
	opts.Network.Registrar = fakeRegistrar{}
	opts.Network.Cookie = "secret"
	opts.Network.MaxMessageSize = o.maxMessageSize
	opts.Log.DefaultLogger.Disable = true
	opts.Log.Level = gen.LogLevelDisabled
	if o.isA && o.optA != nil {
		o.optA(&opts)
	}
	if !o.isA && o.optB != nil {
		o.optB(&opts)
	}
	n, err := Start(gen.Atom(name), opts, gen.Version{})
	if err != nil {
		panic(err)
	}
	return n.(*node)
}

type linkEnds struct {
	ca, cb *vconn.Conn
}

type NetWorld struct {
	atomMapA map[gen.Atom]gen.Atom
	ex       *vsched.Exec
	a, b     *World
	links    []*linkEnds
	pa, pb   gen.Connection
	id       string
	Check    func()
	out      []string
}

func (nw *NetWorld) Out(format string, a ...any) { nw.out = append(nw.out, fmt.Sprintf(format, a...)) }

// connect performs the real handshake (Start x Accept) over an in-memory link in a set-up phase
// and registers the connections exactly as network.connect/accept do.
func (nw *NetWorld) connect() {
	a, b := nw.a.n, nw.b.n
	le := &linkEnds{}
	le.ca, le.cb = vconn.Pair("a0", "b0")
	nw.links = append(nw.links, le)
	ex := nw.ex
	ex.Thread("hsA", func() {
		hs, pr := a.network.defaultHandshake, a.network.defaultProto
		res, err := hs.Start(a, le.ca, gen.HandshakeOptions{Cookie: a.network.cookie, Flags: a.network.flags, MaxMessageSize: a.network.maxmessagesize})
		if err != nil {
			ex.Fail("handshake-failed", "start: %v", err)
			return
		}
		if nw.atomMapA != nil { // as network.connect merges route.AtomMapping into the handshake result
			mapping := map[gen.Atom]gen.Atom{}
			for k, v := range nw.atomMapA {
				mapping[k] = v
			}
			for k, v := range res.AtomMapping {
				mapping[k] = v
			}
			res.AtomMapping = mapping
		}
		pc, err := pr.NewConnection(a, res, createLog(gen.LogLevelDisabled, a.dolog))
		if err != nil {
			ex.Fail("handshake-failed", "new connection A: %v", err)
			return
		}
		a.network.registerConnection(res.Peer, pc)
		pc.Join(le.ca, res.ConnectionID, nil, res.Tail)
		nw.pa, nw.id = pc, res.ConnectionID
		vsched.Go(func() { a.network.serve(pr, pc, nil) })
	})
	ex.Thread("hsB", func() {
		res, err := b.network.defaultHandshake.Accept(b, le.cb, gen.HandshakeOptions{Cookie: b.network.cookie, Flags: b.network.flags, MaxMessageSize: b.network.maxmessagesize})
		if err != nil {
			ex.Fail("handshake-failed", "accept: %v", err)
			return
		}
		pc, err := b.network.defaultProto.NewConnection(b, res, createLog(gen.LogLevelDisabled, b.dolog))
		if err != nil {
			ex.Fail("handshake-failed", "new connection B: %v", err)
			return
		}
		b.network.registerConnection(res.Peer, pc)
		pc.Join(le.cb, res.ConnectionID, nil, res.Tail)
		nw.pb = pc
		vsched.Go(func() { b.network.serve(b.network.defaultProto, pc, nil) })
	})
	ex.RunSetup()
}

// connectDialing declares (does not run) the threads of a connection set-up in which the initiator
// fills the pool itself, the way network.connect + enp.Serve do: the first link is made by hsA/hsB, the
// further ones by the real Serve loop through a dial function that creates an in-memory link, lets the
// acceptor's side treat it as network.accept treats an incoming TCP connection, and runs the real Join.
// onB is called on B's side once its connection is registered.
func (nw *NetWorld) connectDialing(onA, onB func()) {
	a, b := nw.a.n, nw.b.n
	le := &linkEnds{}
	le.ca, le.cb = vconn.Pair("a0", "b0")
	nw.links = append(nw.links, le)
	ex := nw.ex
	hoA := gen.HandshakeOptions{Cookie: a.network.cookie, Flags: a.network.flags, MaxMessageSize: a.network.maxmessagesize}
	hoB := gen.HandshakeOptions{Cookie: b.network.cookie, Flags: b.network.flags, MaxMessageSize: b.network.maxmessagesize}
	acceptB := func(cb *vconn.Conn) {
		// network.accept, from the handshake on
		res, err := b.network.defaultHandshake.Accept(b, cb, hoB)
		if err != nil || res.Peer == "" {
			cb.Close()
			return
		}
		if v, exist := b.network.connections.Load(res.Peer); exist {
			if err := v.(gen.Connection).Join(cb, res.ConnectionID, nil, res.Tail); err != nil {
				cb.Close()
			}
			return
		}
		pc, err := b.network.defaultProto.NewConnection(b, res, createLog(gen.LogLevelDisabled, b.dolog))
		if err != nil {
			cb.Close()
			return
		}
		if _, err := b.network.registerConnection(res.Peer, pc); err != nil {
			cb.Close()
			return
		}
		pc.Join(cb, res.ConnectionID, nil, res.Tail)
		nw.pb = pc
		if onB != nil {
			onB()
		}
		vsched.Go(func() { b.network.serve(b.network.defaultProto, pc, nil) })
	}
	redial := func(dsn, id string) (net.Conn, []byte, error) {
		k := len(nw.links)
		l := &linkEnds{}
		l.ca, l.cb = vconn.Pair(fmt.Sprintf("a%d", k), fmt.Sprintf("b%d", k))
		nw.links = append(nw.links, l)
		vsched.Go(func() { acceptB(l.cb) })
		tail, err := a.network.defaultHandshake.Join(a, l.ca, id, hoA)
		if err != nil {
			return nil, nil, err
		}
		return l.ca, tail, nil
	}
	ex.Thread("hsA", func() {
		hs, pr := a.network.defaultHandshake, a.network.defaultProto
		res, err := hs.Start(a, le.ca, hoA)
		if err != nil {
			ex.Fail("handshake-failed", "start: %v", err)
			return
		}
		pc, err := pr.NewConnection(a, res, createLog(gen.LogLevelDisabled, a.dolog))
		if err != nil {
			ex.Fail("handshake-failed", "new connection A: %v", err)
			return
		}
		a.network.registerConnection(res.Peer, pc)
		pc.Join(le.ca, res.ConnectionID, redial, res.Tail)
		nw.pa, nw.id = pc, res.ConnectionID
		if onA != nil {
			onA()
		}
		vsched.Go(func() { a.network.serve(pr, pc, redial) })
	})
	ex.Thread("hsB", func() { acceptB(le.cb) })
}

// addLink joins one more in-memory link to the connection through the real Join handshake.
func (nw *NetWorld) addLink() *linkEnds {
	a, b := nw.a.n, nw.b.n
	k := len(nw.links)
	le := &linkEnds{}
	le.ca, le.cb = vconn.Pair(fmt.Sprintf("a%d", k), fmt.Sprintf("b%d", k))
	nw.links = append(nw.links, le)
	ex := nw.ex
	ex.Thread(fmt.Sprintf("joinA%d", k), func() {
		tail, err := a.network.defaultHandshake.Join(a, le.ca, nw.id, gen.HandshakeOptions{Cookie: a.network.cookie})
		if err != nil {
			ex.Fail("join-failed", "join A: %v", err)
			return
		}
		if err := nw.pa.Join(le.ca, nw.id, nil, tail); err != nil {
			ex.Fail("join-failed", "pool join A: %v", err)
		}
	})
	ex.Thread(fmt.Sprintf("joinB%d", k), func() {
		res, err := b.network.defaultHandshake.Accept(b, le.cb, gen.HandshakeOptions{Cookie: b.network.cookie})
		if err != nil {
			ex.Fail("join-failed", "join accept B: %v", err)
			return
		}
		if err := nw.pb.Join(le.cb, res.ConnectionID, nil, res.Tail); err != nil {
			ex.Fail("join-failed", "pool join B: %v", err)
		}
	})
	ex.RunSetup()
	return le
}

// netBody: two fresh nodes per execution, build, run, oracle, tear-down
func netBody(o netOpts, build func(nw *NetWorld)) func(ex *vsched.Exec) string {
	return func(ex *vsched.Exec) string {
		nw := &NetWorld{ex: ex, atomMapA: o.atomMapA}
		na := startNetNode("a@localhost", netOpts{optA: o.optA, isA: true})
		// the nodes are not started within the same second: their incarnation stamps (start time in
		// seconds) differ, as they do for any two nodes outside a test
		ex.Now += 3_000_000_000
		nb := startNetNode("b@localhost", o)
		// nor do their counters run in step: unless a scenario asks for particular ids, B's process ids are two ahead of
		// A's and its reference counter is elsewhere (equal ids on both sides would hide a sender/receiver or a
		// local/remote mix-up)
		if o.skipA == 0 && o.skipB == 0 && !o.samePids {
			o.skipB = 2
		}
		nb.uniqID += 3 << 20
		nw.a = &World{ex: ex, n: na, recs: map[string]*rec{}, pids: map[string]gen.PID{}, tag: "A-"}
		nw.b = &World{ex: ex, n: nb, recs: map[string]*rec{}, pids: map[string]gen.PID{}, tag: "B-"}
		// dummy processes are spawned outside the scheduler (they only consume process ids)
		for i := 0; i < o.skipA; i++ {
			na.Spawn(func() gen.ProcessBehavior { return &probe{} }, gen.ProcessOptions{}, probeCfg{rec: &rec{}})
		}
		for i := 0; i < o.skipB; i++ {
			nb.Spawn(func() gen.ProcessBehavior { return &probe{} }, gen.ProcessOptions{}, probeCfg{rec: &rec{}})
		}
		waitIdle(na)
		waitIdle(nb)
		build(nw)
		ex.Run()
		for _, d := range ex.Deadlocked {
			ex.Fail("deadlock", "thread %s blocked forever on a lock or wait group", d)
		}
		if nw.Check != nil {
			nw.Check()
		}
		ex.Release()
		dropNode(na)
		dropNode(nb)
		return strings.Join(nw.out, " ")
	}
}

// waitIdle waits (real time, outside the scheduler) until every process of the node sleeps
func waitIdle(n *node) {
	list, _ := n.ProcessList()
	for _, pid := range list {
		waitSleep(n, pid)
	}
}
