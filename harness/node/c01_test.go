//go:build verif

package node

import (
	"strings"

	"ergo.services/ergo/gen"
	"verif.local/vsched/harn"
)

// C01 — one callback of a process at a time.

func c01Scenario(name string, qb, tb int, preempt bool, build func(w *World)) {
	harn.Register(harn.Scenario{Property: "C01", Name: name, Run: func(c *harn.Ctx) *harn.Result {
		return harn.Explore(c, harn.Sched{QuickBound: qb, ThoroughBound: tb, Preempt: preempt, Cache: true,
			Body: nodeBody(func(w *World) {
				build(w)
				w.Check = func() {
					r := w.recs["R"]
					w.serialOracle("R")
					w.Out("log=%s", strings.Join(r.log, ","))
				}
			})})
	}})
}

func init() {
	c01Scenario("send-send", 2, 3, true, func(w *World) {
		pid := w.spawnProbe("R", probeCfg{}, gen.ProcessOptions{})
		w.ex.Thread("S1", func() { w.n.Send(pid, "a") })
		w.ex.Thread("S2", func() { w.n.Send(pid, "b") })
	})
	c01Scenario("send-kill", 2, 3, true, func(w *World) {
		pid := w.spawnProbe("R", probeCfg{}, gen.ProcessOptions{})
		w.ex.Thread("S1", func() { w.n.Send(pid, "a") })
		w.ex.Thread("K1", func() { w.n.Kill(pid) })
	})
	c01Scenario("send-kill-kill", 2, 3, true, func(w *World) {
		pid := w.spawnProbe("R", probeCfg{}, gen.ProcessOptions{})
		w.ex.Thread("S1", func() { w.n.Send(pid, "a") })
		w.ex.Thread("K1", func() { w.n.Kill(pid) })
		w.ex.Thread("K2", func() { w.n.Kill(pid) })
	})
}
