//go:build verif

package node

import (
	"errors"
	"strings"
	rt "time"

	"ergo.services/ergo/gen"
	"verif.local/vsched"
	"verif.local/vsched/harn"
)

// C01 — one callback of a process at a time.

type c01opt struct {
	qb, tb      int
	preempt     bool
	timerBranch bool
	tiers       string
	subjects    []string
	quiet       bool // nothing in the scenario terminates the subject: it must stay alive
}

func c01Scenario(name string, o c01opt, build func(w *World)) {
	if len(o.subjects) == 0 {
		o.subjects = []string{"R"}
	}
	harn.Register(harn.Scenario{Property: "C01", Name: name, Tiers: o.tiers, Run: func(c *harn.Ctx) *harn.Result {
		return harn.Explore(c, harn.Sched{QuickBound: o.qb, ThoroughBound: o.tb, Preempt: o.preempt, Cache: true, TimerBranch: o.timerBranch,
			Body: nodeBody(func(w *World) {
				build(w)
				w.Check = func() {
					for _, s := range o.subjects {
						if o.quiet {
							if r := w.recs[s]; len(r.term) > 0 || !w.alive(s) {
								w.ex.Fail("spurious-termination", "%s terminated (%v) although nothing in this scenario kills it or makes it fail; log=%v", s, r.term, r.log)
							}
						}
						w.serialOracle(s)
						w.Out("%s=%s", s, strings.Join(w.recs[s].log, ","))
					}
				}
			})})
	}})
}

var errE = errors.New("E")

func init() {
	pb := c01opt{qb: 2, tb: 3, preempt: true}
	pq := c01opt{qb: 2, tb: 3, preempt: true, quiet: true}
	c01Scenario("send-send", pq, func(w *World) {
		pid := w.spawnProbe("R", probeCfg{}, gen.ProcessOptions{})
		w.ex.Thread("S1", func() { w.n.Send(pid, "a") })
		w.ex.Thread("S2", func() { w.n.Send(pid, "b") })
	})
	c01Scenario("send2-send2", pq, func(w *World) {
		pid := w.spawnProbe("R", probeCfg{}, gen.ProcessOptions{})
		w.ex.Thread("S1", func() { w.n.Send(pid, "a"); w.n.Send(pid, "c") })
		w.ex.Thread("S2", func() { w.n.Send(pid, "b"); w.n.Send(pid, "d") })
	})
	c01Scenario("send-send-send", c01opt{qb: 2, tb: 3, preempt: true, quiet: true}, func(w *World) {
		pid := w.spawnProbe("R", probeCfg{}, gen.ProcessOptions{})
		w.ex.Thread("S1", func() { w.n.Send(pid, "a") })
		w.ex.Thread("S2", func() { w.n.Send(pid, "b") })
		w.ex.Thread("S3", func() { w.n.SendWithPriority(pid, "c", gen.MessagePriorityHigh) })
	})
	c01Scenario("send-kill", pb, func(w *World) {
		pid := w.spawnProbe("R", probeCfg{}, gen.ProcessOptions{})
		w.ex.Thread("S1", func() { w.n.Send(pid, "a") })
		w.ex.Thread("K1", func() { w.n.Kill(pid) })
	})
	c01Scenario("send-kill-kill", pb, func(w *World) {
		pid := w.spawnProbe("R", probeCfg{}, gen.ProcessOptions{})
		w.ex.Thread("S1", func() { w.n.Send(pid, "a") })
		w.ex.Thread("K1", func() { w.n.Kill(pid) })
		w.ex.Thread("K2", func() { w.n.Kill(pid) })
	})
	c01Scenario("send-exit-kill", pb, func(w *World) {
		pid := w.spawnProbe("R", probeCfg{}, gen.ProcessOptions{})
		w.ex.Thread("S1", func() { w.n.Send(pid, "a") })
		w.ex.Thread("X1", func() { w.n.SendExit(pid, errE) })
		w.ex.Thread("K1", func() { w.n.Kill(pid) })
	})
	c01Scenario("send-fail-send", pb, func(w *World) {
		pid := w.spawnProbe("R", probeCfg{onMsg: func(p *probe, from gen.PID, m any) error {
			if m == "fail" {
				return errE
			}
			return nil
		}}, gen.ProcessOptions{})
		w.ex.Thread("S1", func() { w.n.Send(pid, "fail") })
		w.ex.Thread("S2", func() { w.n.Send(pid, "b") })
	})
	// delayed send racing with a direct send: the timer is a scheduling alternative
	c01Scenario("sendafter-send", c01opt{qb: 1, tb: 2, preempt: true, timerBranch: true}, func(w *World) {
		pid := w.spawnProbe("R", probeCfg{}, gen.ProcessOptions{})
		w.spawnProbe("H", probeCfg{onMsg: func(p *probe, from gen.PID, m any) error {
			p.SendAfter(pid, "t", rt.Millisecond)
			return nil
		}}, gen.ProcessOptions{})
		w.ex.Thread("S1", func() { w.n.Send(w.pids["H"], "arm"); w.n.Send(pid, "a") })
		w.ex.Thread("S2", func() { w.n.Send(pid, "b") })
	})
	// R is waiting for a response while it is killed and while more traffic arrives
	c01Scenario("waitresponse-kill-send", c01opt{qb: 1, tb: 2, preempt: true}, func(w *World) {
		spid := w.spawnProbe("S", probeCfg{}, gen.ProcessOptions{})
		pid := w.spawnProbe("R", probeCfg{onMsg: func(p *probe, from gen.PID, m any) error {
			if m == "docall" {
				p.Call(spid, "q")
			}
			return nil
		}}, gen.ProcessOptions{})
		w.ex.Thread("S1", func() { w.n.Send(pid, "docall") })
		w.ex.Thread("S2", func() { w.n.Send(pid, "b") })
		w.ex.Thread("K1", func() { w.n.Kill(pid) })
	})
	// a process that sends to itself during init while another thread addresses it by name
	c01Scenario("init-selfsend-name", c01opt{qb: 2, tb: 3, preempt: true}, func(w *World) {
		r := &rec{name: "R"}
		w.recs["R"] = r
		w.ex.Thread("SP", func() {
			w.n.SpawnRegister("rname", func() gen.ProcessBehavior { return &probe{} }, gen.ProcessOptions{}, probeCfg{rec: r, onInit: func(p *probe) error {
				p.Send(p.PID(), "self")
				return nil
			}})
		})
		w.ex.Thread("S1", func() { w.n.Send(gen.Atom("rname"), "a") })
	})
	// meta process: two senders to its alias
	c01Scenario("meta-send-send", pb, func(w *World) {
		id, _ := w.spawnMeta("R", gen.MetaOptions{})
		w.ex.Thread("S1", func() { w.n.Send(id, "a") })
		w.ex.Thread("S2", func() { w.n.Send(id, "b") })
	})
	// meta process: three messages, so that a second handler goroutine (if one is ever started) finds work
	c01Scenario("meta-send-send2", pb, func(w *World) {
		id, _ := w.spawnMeta("R", gen.MetaOptions{})
		w.ex.Thread("S1", func() { w.n.Send(id, "a") })
		w.ex.Thread("S2", func() { w.n.Send(id, "b"); w.n.Send(id, "c") })
	})
	// bounded mailbox, urgent queue full, the process inside a callback: a further exit signal is refused, it is not
	// a licence to tear the process down next to its running callback
	c01Scenario("bounded-urgent-full-exit-exit", pb, func(w *World) {
		g := &vsched.Gate{}
		pid := w.spawnProbe("R", probeCfg{trap: false, onMsg: func(p *probe, from gen.PID, m any) error {
			if m == "park" {
				g.Wait()
			}
			return nil
		}}, gen.ProcessOptions{MailboxSize: 1})
		w.Setup("park", func() { w.n.Send(pid, "park") })
		w.ex.Thread("X1", func() { w.n.SendExit(pid, errE) })
		w.ex.Thread("X2", func() { w.n.SendExit(pid, errE) })
		w.ex.ThreadLow("G", func() { g.Open() })
	})
	// the same for a meta process with a bounded mailbox whose owner terminates while its handler is busy
	c01Scenario("meta-bounded-system-full-owner-exit", pb, func(w *World) {
		g := &vsched.Gate{}
		id, mp := w.spawnMeta("R", gen.MetaOptions{MailboxSize: 1})
		mp.onMsg = func(m *metaProbe, from gen.PID, msg any) error {
			if msg == "park" {
				g.Wait()
			}
			return nil
		}
		w.Setup("park", func() { w.n.Send(id, "park") })
		w.Setup("fill", func() {
			w.n.Send(w.pids["PR"], doMsg{func(p *probe) error { p.SendExitMeta(id, errE); return nil }})
		})
		w.ex.Thread("K", func() { w.n.Send(w.pids["PR"], doMsg{func(p *probe) error { return gen.TerminateReasonNormal }}) })
		w.ex.ThreadLow("G", func() { g.Open() })
	})
	// messages sent to a meta process as soon as SpawnMeta has returned, i.e. while its start-up goroutine is on its way
	c01Scenario("meta-spawn-then-send", pb, func(w *World) {
		r := &rec{name: "R"}
		w.recs["R"] = r
		mp := &metaProbe{r: r, start: &vsched.Gate{}}
		w.spawnProbe("PR", probeCfg{onMsg: func(p *probe, from gen.PID, m any) error {
			if m != "spawn" {
				return nil
			}
			id, err := p.SpawnMeta(mp, gen.MetaOptions{})
			if err != nil {
				panic(err)
			}
			for _, x := range []string{"a", "b", "c"} {
				p.Send(id, x)
			}
			return nil
		}}, gen.ProcessOptions{})
		w.ex.Thread("SP", func() { w.n.Send(w.pids["PR"], "spawn") })
	})
	// a process is killed (by pid, and by a forced stop of everything registered) while it is still in Init
	for _, how := range []string{"kill", "kill-all-listed"} {
		how := how
		c01Scenario("init-vs-"+how, c01opt{qb: 2, tb: 3, preempt: true}, func(w *World) {
			r := &rec{name: "R"}
			w.recs["R"] = r
			var pid gen.PID
			known := false
			w.ex.Thread("SP", func() {
				w.n.Spawn(func() gen.ProcessBehavior { return &probe{} }, gen.ProcessOptions{}, probeCfg{rec: r, onInit: func(p *probe) error {
					pid, known = p.PID(), true
					p.Send(p.PID(), "self1")
					p.Send(p.PID(), "self2")
					return nil
				}})
			})
			w.ex.Thread("K", func() {
				if how == "kill" {
					vsched.Block(vsched.OpUser, 0, func() bool { return known })
					w.n.Kill(pid)
					return
				}
				list, _ := w.n.ProcessList()
				for _, x := range list {
					if x.ID >= 1000 {
						w.n.Kill(x)
					}
				}
			})
		})
	}
	// meta process: Start() returns (=> termination) while a message is being delivered
	c01Scenario("meta-startreturns-send", pb, func(w *World) {
		id, mp := w.spawnMeta("R", gen.MetaOptions{})
		w.ex.Thread("G", func() { mp.start.Open() })
		w.ex.Thread("S1", func() { w.n.Send(id, "a") })
	})
	// meta process: its Start() panics while the Terminate callback (caused by a handler error) is still executing
	c01Scenario("meta-start-panics-during-terminate", c01opt{qb: 1, tb: 2, preempt: true}, func(w *World) {
		id, mp := w.spawnMeta("R", gen.MetaOptions{})
		mp.onMsg = func(m *metaProbe, from gen.PID, msg any) error {
			if msg == "fail" {
				return errE
			}
			return nil
		}
		// (Start is released from inside Terminate: that it may end BEFORE a handler has finished is the known finding
		// of meta-startreturns-send and not what this scenario is about)
		g2 := &vsched.Gate{}
		first := true
		mp.onTerm = func(reason error) {
			if first {
				first = false
				mp.start.Open()
				g2.Wait()
			}
		}
		mp.startPanics = true
		w.ex.Thread("A", func() { w.n.Send(id, "fail") })
		w.ex.Thread("S2", func() { w.n.Send(id, "b") })
		w.ex.ThreadLow("G2", func() { g2.Open() })
	})
	// meta process: owner terminates (exit signal to the meta) while a message is delivered
	c01Scenario("meta-ownerkill-send", pb, func(w *World) {
		id, _ := w.spawnMeta("R", gen.MetaOptions{})
		w.ex.Thread("K", func() { w.n.Kill(w.pids["PR"]) })
		w.ex.Thread("S1", func() { w.n.Send(id, "a") })
	})
	_ = vsched.OpUser
}
