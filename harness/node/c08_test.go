//go:build verif

package node

import (
	"fmt"

	"ergo.services/ergo/act"
	"ergo.services/ergo/gen"
	"verif.local/vsched/harn"
)

// C08 on the real node: what the fake process of the act harness cannot show — the schedules
// between a dying child's tear-down and its supervisor's reaction.

func init() {
	types := map[string]act.SupervisorType{"ofo": act.SupervisorTypeOneForOne, "afo": act.SupervisorTypeAllForOne, "rfo": act.SupervisorTypeRestForOne}
	for tn, typ := range types {
		tn, typ := tn, typ
		for _, how := range []string{"crash", "kill"} {
			how := how
			harn.Register(harn.Scenario{Property: "C08", Name: fmt.Sprintf("realnode-%s-restart-after-%s", tn, how), Run: func(c *harn.Ctx) *harn.Result {
				return harn.Explore(c, harn.Sched{QuickBound: 2, ThoroughBound: 3, Preempt: true, Cache: true, HorizonS: 30, Body: nodeBody(func(w *World) {
					t := newTree(w)
					t.factories = map[string]gen.ProcessFactory{}
					f := t.sup("S", typ, "w1", "w2")
					w.Setup("start", func() {
						if _, err := w.n.Spawn(f, gen.ProcessOptions{}); err != nil {
							panic(err)
						}
					})
					w.ex.Thread("A", func() {
						if how == "crash" {
							w.n.Send(w.pids["w1"], "fail")
						} else {
							w.n.Kill(w.pids["w1"])
						}
					})
					w.Check = func() {
						if !t.anyAlive("S") {
							w.ex.Fail("supervisor-died-on-restart", "child w1 terminated (%s); the %s supervisor should have restarted it but terminated itself (children: w1 started %d times, w2 %d times)", how, tn, len(t.all["w1"]), len(t.all["w2"]))
							return
						}
						want := map[string]int{"w1": 2, "w2": 1}
						if typ != act.SupervisorTypeOneForOne {
							want["w2"] = 2
						}
						for _, n := range []string{"w1", "w2"} {
							if len(t.all[n]) != want[n] || !t.anyAlive(n) {
								w.ex.Fail("child-not-restarted", "after w1 terminated (%s) under %s: %s was started %d times (want %d), alive=%v", how, tn, n, len(t.all[n]), want[n], t.anyAlive(n))
							}
						}
						w.Out("w1=%d w2=%d", len(t.all["w1"]), len(t.all["w2"]))
					}
				})})
			}})
		}
		// two of three children die at (nearly) the same moment, the first and the last in spec order: whichever exit
		// the supervisor handles first, in the end every child in the scope of the strategy is replaced and running
		harn.Register(harn.Scenario{Property: "C08", Name: fmt.Sprintf("realnode-%s-two-of-three-die-together", tn), Run: func(c *harn.Ctx) *harn.Result {
			return harn.Explore(c, harn.Sched{QuickBound: 1, ThoroughBound: 2, Preempt: false, Cache: true, HorizonS: 30, Body: nodeBody(func(w *World) {
				t := newTree(w)
				t.factories = map[string]gen.ProcessFactory{}
				f := t.sup("S", typ, "w1", "w2", "w3")
				w.Setup("start", func() {
					if _, err := w.n.Spawn(f, gen.ProcessOptions{}); err != nil {
						panic(err)
					}
				})
				p1, p3 := w.pids["w1"], w.pids["w3"]
				w.ex.Thread("A", func() { w.n.Kill(p1) })
				w.ex.Thread("B", func() { w.n.Kill(p3) })
				w.Check = func() {
					if !t.anyAlive("S") {
						w.ex.Fail("supervisor-died-on-restart", "w1 and w3 were killed; the %s supervisor terminated itself (restart intensity 100)", tn)
						return
					}
					for _, n := range []string{"w1", "w2", "w3"} {
						min := 2
						if n == "w2" && typ == act.SupervisorTypeOneForOne {
							min = 1
						}
						if len(t.all[n]) < min || !t.anyAlive(n) {
							w.ex.Fail("child-not-restarted", "w1 and w3 were killed at the same moment under %s: %s was started %d times (want at least %d), alive=%v", tn, n, len(t.all[n]), min, t.anyAlive(n))
						}
					}
					w.Out("w1=%d w2=%d w3=%d", len(t.all["w1"]), len(t.all["w2"]), len(t.all["w3"]))
				}
			})})
		}})
		// the replacement of a crashed child crashes at once (from a message it sends itself in Init): the supervisor
		// must notice that termination too and start a third incarnation
		harn.Register(harn.Scenario{Property: "C08", Name: fmt.Sprintf("realnode-%s-replacement-dies-at-once", tn), Shards: 8, Run: func(c *harn.Ctx) *harn.Result {
			qb := 2
			if typ != act.SupervisorTypeOneForOne {
				qb = 1 // (restarting all children again multiplies the schedules; bound 2 is left to the thorough tier)
			}
			return harn.Explore(c, harn.Sched{QuickBound: qb, ThoroughBound: qb + 1, Preempt: true, Cache: true, HorizonS: 30, Body: nodeBody(func(w *World) {
				t := newTree(w)
				t.factories = map[string]gen.ProcessFactory{}
				t.selfFail["w1"] = 2
				f := t.sup("S", typ, "w1", "w2")
				w.Setup("start", func() {
					if _, err := w.n.Spawn(f, gen.ProcessOptions{}); err != nil {
						panic(err)
					}
				})
				w.ex.Thread("A", func() { w.n.Send(w.pids["w1"], "fail") })
				w.Check = func() {
					if !t.anyAlive("S") {
						w.ex.Fail("supervisor-died-on-restart", "the %s supervisor terminated (w1 started %d times)", tn, len(t.all["w1"]))
						return
					}
					if len(t.all["w1"]) != 3 || !t.anyAlive("w1") {
						w.ex.Fail("child-termination-unnoticed", "w1 crashed, its replacement crashed at once: w1 was started %d times (want 3), alive=%v - the supervisor did not notice the second termination", len(t.all["w1"]), t.anyAlive("w1"))
					}
					w.Out("w1=%d w2=%d", len(t.all["w1"]), len(t.all["w2"]))
				}
			})})
		}})
	}
}
