//go:build verif

package node

import (
	"errors"
	"fmt"
	"strings"

	"ergo.services/ergo/gen"
	"verif.local/vsched/harn"
)

// C07 — request/response correlation.

type callRes struct {
	q   string
	v   any
	err error
}

type c07world struct {
	w       *World
	results []callRes
	sendRes []string // results of SendResponse calls
}

// oracle: every call returns the value made for it, or an error; each reply value is consumed at
// most once; the callee saw each request at most once
func (c *c07world) check(valid map[string][]string) {
	w := c.w
	used := map[string]int{}
	for _, r := range c.results {
		if r.err != nil {
			continue
		}
		v := fmt.Sprint(r.v)
		ok := false
		for _, x := range valid[r.q] {
			if x == v {
				ok = true
			}
		}
		if !ok {
			w.ex.Fail("foreign-response", "call %q returned %q, which was not produced for it (valid: %v)", r.q, v, valid[r.q])
		}
		used[r.q+"="+v]++
	}
	for k, n := range used {
		if n > 1 {
			w.ex.Fail("response-consumed-twice", "%s was returned by %d calls", k, n)
		}
	}
	for _, callee := range []string{"S", "M"} {
		s := w.recs[callee]
		if s == nil {
			continue
		}
		seen := map[string]int{}
		for _, q := range handled(s, "C:") {
			seen[q]++
			if seen[q] > 1 {
				w.ex.Fail("request-presented-twice", "callee handled request %q %d times", q, seen[q])
			}
		}
	}
	for name, r := range w.recs {
		if strings.HasPrefix(name, "C") {
			if info, err := w.n.ProcessInfo(w.pids[name]); err == nil && info.State != gen.ProcessStateSleep {
				w.ex.Fail("caller-stuck", "caller %s is in state %s at quiescence (log %v)", name, info.State, r.log)
			}
		}
	}
	var rs []string
	for _, r := range c.results {
		rs = append(rs, fmt.Sprintf("%s=%v/%v", r.q, r.v, r.err))
	}
	w.Out("calls=%s sr=%v", strings.Join(rs, ","), c.sendRes)
}

var c07shards = map[string]int{"meta-callee-asleep-two-callers": 8}

func c07Scenario(name string, qb, tb int, timerBranch bool, build func(c *c07world) map[string][]string) {
	harn.Register(harn.Scenario{Property: "C07", Name: name, QuickShards: c07shards[name], Shards: 2 * c07shards[name], Run: func(ctx *harn.Ctx) *harn.Result {
		return harn.Explore(ctx, harn.Sched{QuickBound: qb, ThoroughBound: tb, Preempt: !c07delay[name], Cache: true, TimerBranch: timerBranch, Body: nodeBody(func(w *World) {
			c := &c07world{w: w}
			valid := build(c)
			w.Check = func() { c.check(valid) }
		})})
	}})
}

// caller spawns a probe that, on "go", issues the given calls in order (timeout 1 s each)
func (c *c07world) caller(name string, to func() any, qs ...string) {
	c.w.spawnProbe(name, probeCfg{onMsg: func(p *probe, from gen.PID, m any) error {
		if m != "go" {
			return nil
		}
		for _, q := range qs {
			v, err := p.CallWithTimeout(to(), q, 1)
			c.results = append(c.results, callRes{q, v, err})
		}
		return nil
	}}, gen.ProcessOptions{})
}

var c07delay = map[string]bool{"reply-from-helper": true, "two-callers-addressing": true, "stray-reply": true, "meta-callee": true}

func init() {
	// late reply to a timed-out request arrives while the next request is waiting
	c07Scenario("late-reply", 1, 2, true, func(c *c07world) map[string][]string {
		w := c.w
		var from1 gen.PID
		var ref1 gen.Ref
		spid := w.spawnProbe("S", probeCfg{onCall: func(p *probe, from gen.PID, ref gen.Ref, m any) (any, error) {
			switch m {
			case "q1":
				from1, ref1 = from, ref
				return nil, nil // answered later
			case "q2":
				c.sendRes = append(c.sendRes, fmt.Sprint(p.SendResponse(from1, ref1, "late-r1")))
				return "re:q2", nil
			}
			return "re:" + fmt.Sprint(m), nil
		}}, gen.ProcessOptions{})
		c.caller("C1", func() any { return spid }, "q1", "q2", "q3")
		w.ex.Thread("G", func() { w.n.Send(w.pids["C1"], "go") })
		return map[string][]string{"q1": {"late-r1"}, "q2": {"re:q2"}, "q3": {"re:q3"}}
	})
	// duplicate replies: the second copy must not answer the next request
	for _, dups := range []int{2, 10, 11} {
		dups := dups
		c07Scenario(fmt.Sprintf("duplicate-replies-%d", dups), 1, 2, false, func(c *c07world) map[string][]string {
			w := c.w
			spid := w.spawnProbe("S", probeCfg{onCall: func(p *probe, from gen.PID, ref gen.Ref, m any) (any, error) {
				if m == "q1" {
					for i := 0; i < dups; i++ {
						c.sendRes = append(c.sendRes, fmt.Sprint(p.SendResponse(from, ref, fmt.Sprintf("r1#%d", i))))
					}
					return nil, nil
				}
				return "re:" + fmt.Sprint(m), nil
			}}, gen.ProcessOptions{})
			c.caller("C1", func() any { return spid }, "q1", "q2", "q3")
			w.ex.Thread("G", func() { w.n.Send(w.pids["C1"], "go") })
			v1 := []string{}
			for i := 0; i < dups; i++ {
				v1 = append(v1, fmt.Sprintf("r1#%d", i))
			}
			return map[string][]string{"q1": v1, "q2": {"re:q2"}, "q3": {"re:q3"}}
		})
	}
	// requests through a pool: a worker found dead is replaced and the request is handed on - once; every caller
	// gets the reply made for its own request (the pool forwards the request object itself)
	c07delay["pool-worker-dead"] = true
	c07Scenario("pool-worker-dead", 1, 2, false, func(c *c07world) map[string][]string {
		w := c.w
		_, pool, _ := w.spawnPool(poolCfg{size: 3})
		w.Setup("kill-w1", func() { w.n.Kill(w.pids["W1"]) })
		c.caller("C1", func() any { return pool }, "q1", "q2", "q3", "q4")
		c.caller("C2", func() any { return pool }, "p1", "p2")
		w.ex.Thread("G1", func() { w.n.Send(w.pids["C1"], "go") })
		w.ex.Thread("G2", func() { w.n.Send(w.pids["C2"], "go") })
		valid := map[string][]string{}
		for _, q := range []string{"q1", "q2", "q3", "q4", "p1", "p2"} {
			valid[q] = []string{"re:" + q}
		}
		return valid
	})
	// asynchronous reply sent by another process
	c07Scenario("reply-from-helper", 2, 3, false, func(c *c07world) map[string][]string {
		w := c.w
		type fwd struct {
			from gen.PID
			ref  gen.Ref
			q    string
		}
		hpid := w.spawnProbe("H", probeCfg{onMsg: func(p *probe, from gen.PID, m any) error {
			if f, ok := m.(fwd); ok {
				c.sendRes = append(c.sendRes, fmt.Sprint(p.SendResponse(f.from, f.ref, "H:"+f.q)))
			}
			return nil
		}}, gen.ProcessOptions{})
		spid := w.spawnProbe("S", probeCfg{onCall: func(p *probe, from gen.PID, ref gen.Ref, m any) (any, error) {
			p.Send(hpid, fwd{from, ref, fmt.Sprint(m)})
			return nil, nil
		}}, gen.ProcessOptions{})
		c.caller("C1", func() any { return spid }, "q1", "q2")
		c.caller("C2", func() any { return spid }, "p1")
		w.ex.Thread("G1", func() { w.n.Send(w.pids["C1"], "go") })
		w.ex.Thread("G2", func() { w.n.Send(w.pids["C2"], "go") })
		return map[string][]string{"q1": {"H:q1"}, "q2": {"H:q2"}, "p1": {"H:p1"}}
	})
	// two callers, one callee, by pid / name / alias
	c07Scenario("two-callers-addressing", 2, 3, false, func(c *c07world) map[string][]string {
		w := c.w
		r := &rec{name: "S"}
		w.recs["S"] = r
		w.Setup("spawnS", func() {
			pid, err := w.n.SpawnRegister("sname", func() gen.ProcessBehavior { return &probe{} }, gen.ProcessOptions{}, probeCfg{rec: r})
			if err != nil {
				panic(err)
			}
			w.pids["S"] = pid
		})
		var al gen.Alias
		w.Do("S", func(p *probe) error { al, _ = p.CreateAlias(); return nil })
		c.caller("C1", func() any { return gen.Atom("sname") }, "q1", "q2")
		c.caller("C2", func() any { return al }, "p1", "p2")
		w.ex.Thread("G1", func() { w.n.Send(w.pids["C1"], "go") })
		w.ex.Thread("G2", func() { w.n.Send(w.pids["C2"], "go") })
		return map[string][]string{"q1": {"re:q1"}, "q2": {"re:q2"}, "p1": {"re:p1"}, "p2": {"re:p2"}}
	})
	// a reply addressed to the caller with a reference it is not waiting for (stray reply from a stranger)
	c07Scenario("stray-reply", 2, 3, false, func(c *c07world) map[string][]string {
		w := c.w
		spid := w.spawnProbe("S", probeCfg{}, gen.ProcessOptions{})
		c.caller("C1", func() any { return spid }, "q1", "q2")
		w.spawnProbe("H", probeCfg{onMsg: func(p *probe, from gen.PID, m any) error {
			c.sendRes = append(c.sendRes, fmt.Sprint(p.SendResponse(w.pids["C1"], w.n.MakeRef(), "stray")))
			return nil
		}}, gen.ProcessOptions{})
		w.ex.Thread("G1", func() { w.n.Send(w.pids["C1"], "go") })
		w.ex.Thread("X", func() { w.n.Send(w.pids["H"], "go") })
		return map[string][]string{"q1": {"re:q1"}, "q2": {"re:q2"}}
	})
	// the callee terminates instead of answering; the caller must get an error, then go on
	c07Scenario("callee-terminates", 1, 2, true, func(c *c07world) map[string][]string {
		w := c.w
		spid := w.spawnProbe("S", probeCfg{onCall: func(p *probe, from gen.PID, ref gen.Ref, m any) (any, error) {
			return nil, errE
		}}, gen.ProcessOptions{})
		s2 := w.spawnProbe("S2", probeCfg{}, gen.ProcessOptions{})
		w.spawnProbe("C1", probeCfg{onMsg: func(p *probe, from gen.PID, m any) error {
			if m != "go" {
				return nil
			}
			v, err := p.CallWithTimeout(spid, "q1", 1)
			c.results = append(c.results, callRes{"q1", v, err})
			v, err = p.CallWithTimeout(s2, "q2", 1)
			c.results = append(c.results, callRes{"q2", v, err})
			return nil
		}}, gen.ProcessOptions{})
		w.ex.Thread("G", func() { w.n.Send(w.pids["C1"], "go") })
		return map[string][]string{"q1": {}, "q2": {"re:q2"}}
	})
	// call to a meta process
	c07Scenario("meta-callee", 2, 3, false, func(c *c07world) map[string][]string {
		w := c.w
		id, _ := w.spawnMeta("M", gen.MetaOptions{})
		c.caller("C1", func() any { return id }, "q1", "q2")
		c.caller("C2", func() any { return id }, "p1")
		w.ex.Thread("G1", func() { w.n.Send(w.pids["C1"], "go") })
		w.ex.Thread("G2", func() { w.n.Send(w.pids["C2"], "go") })
		return map[string][]string{"q1": {"re:q1"}, "q2": {"re:q2"}, "p1": {"re:p1"}}
	})
	// every form of the request API and both forms of the reply (value, error), two callers at a time: each request
	// returns the value or the error made for it
	c07delay["api-forms"] = true
	c07Scenario("api-forms", 1, 2, false, func(c *c07world) map[string][]string {
		w := c.w
		r := &rec{name: "S"}
		w.recs["S"] = r
		w.Setup("spawnS", func() {
			pid, err := w.n.SpawnRegister("sname", func() gen.ProcessBehavior { return &probe{} }, gen.ProcessOptions{}, probeCfg{rec: r, onCall: func(p *probe, from gen.PID, ref gen.Ref, m any) (any, error) {
				q := fmt.Sprint(m)
				if strings.HasPrefix(q, "e") { // answered with an error that names the request
					c.sendRes = append(c.sendRes, fmt.Sprint(p.SendResponseError(from, ref, errors.New("err:"+q))))
					return nil, nil
				}
				return "re:" + q, nil
			}})
			if err != nil {
				panic(err)
			}
			w.pids["S"] = pid
		})
		var al gen.Alias
		w.Do("S", func(p *probe) error { al, _ = p.CreateAlias(); return nil })
		forms := func(name string, tag string) {
			w.spawnProbe(name, probeCfg{onMsg: func(p *probe, from gen.PID, m any) error {
				if m != "go" {
					return nil
				}
				spid := w.pids["S"]
				add := func(q string, v any, err error) {
					if err != nil && strings.HasPrefix(err.Error(), "err:") {
						v, err = err.Error(), nil // the error reply made for a request counts as its value
					}
					c.results = append(c.results, callRes{q, v, err})
				}
				var v any
				var err error
				v, err = p.Call(spid, tag+"1")
				add(tag+"1", v, err)
				v, err = p.CallWithPriority(spid, "e"+tag+"2", gen.MessagePriorityHigh)
				add("e"+tag+"2", v, err)
				v, err = p.CallImportant(spid, tag+"3")
				add(tag+"3", v, err)
				v, err = p.CallPID(spid, "e"+tag+"4", 1)
				add("e"+tag+"4", v, err)
				v, err = p.CallProcessID(gen.ProcessID{Name: "sname", Node: w.n.Name()}, tag+"5", 1)
				add(tag+"5", v, err)
				v, err = p.CallAlias(al, "e"+tag+"6", 1)
				add("e"+tag+"6", v, err)
				v, err = p.CallWithPriority(spid, tag+"7", gen.MessagePriorityMax)
				add(tag+"7", v, err)
				return nil
			}}, gen.ProcessOptions{})
		}
		forms("C1", "q")
		forms("C2", "p")
		w.ex.Thread("G1", func() { w.n.Send(w.pids["C1"], "go") })
		w.ex.Thread("G2", func() { w.n.Send(w.pids["C2"], "go") })
		valid := map[string][]string{}
		for _, tag := range []string{"q", "p"} {
			for i := 1; i <= 7; i++ {
				q := fmt.Sprintf("%s%d", tag, i)
				if i%2 == 0 {
					valid["e"+q] = []string{"err:e" + q}
				} else {
					valid[q] = []string{"re:" + q}
				}
			}
		}
		return valid
	})
	// the same with one request per caller under preemption bounding: both callers find the meta process asleep
	// and wake it at the same moment (a request is presented once, whoever starts the mailbox loop)
	c07Scenario("meta-callee-asleep-two-callers", 2, 3, false, func(c *c07world) map[string][]string {
		w := c.w
		id, _ := w.spawnMeta("M", gen.MetaOptions{})
		c.caller("C1", func() any { return id }, "q1")
		c.caller("C2", func() any { return id }, "p1")
		w.ex.Thread("G1", func() { w.n.Send(w.pids["C1"], "go") })
		w.ex.Thread("G2", func() { w.n.Send(w.pids["C2"], "go") })
		return map[string][]string{"q1": {"re:q1"}, "p1": {"re:p1"}}
	})
}

// two callers on node A call a server on node B at the same time: every reply reaches the caller whose request it
// answers, with the value made for it (the reply frames share links, receive queues and pooled buffers)
func init() {
	for _, prop := range []string{"C07", "C12"} {
		harn.Register(harn.Scenario{Property: prop, Name: "remote-concurrent-calls", Run: func(ctx *harn.Ctx) *harn.Result {
			return harn.Explore(ctx, harn.Sched{QuickBound: 1, ThoroughBound: 2, Preempt: false, Cache: true, HorizonS: 30, Body: netBody(netOpts{}, func(nw *NetWorld) {
				spid := nw.b.spawnProbe("S", probeCfg{onCall: func(p *probe, from gen.PID, ref gen.Ref, m any) (any, error) {
					q := fmt.Sprint(m)
					// a binary reply: its bytes live in the frame buffer until they are copied out
					return []byte("re:" + q + strings.Repeat(q[len(q)-1:], 40)), nil
				}}, gen.ProcessOptions{})
				type res struct {
					q   string
					v   any
					err error
				}
				var results []res
				for _, cn := range []string{"C1", "C2", "C3"} {
					cn := cn
					nw.a.spawnProbe(cn, probeCfg{onMsg: func(p *probe, from gen.PID, m any) error {
						if m != "go" {
							return nil
						}
						for i := 1; i <= 2; i++ {
							q := fmt.Sprintf("%s-q%d", cn, i)
							v, err := p.CallWithTimeout(spid, q, 2)
							results = append(results, res{q, v, err})
						}
						return nil
					}}, gen.ProcessOptions{})
				}
				nw.connect()
				if nw.ex.Failed() {
					return
				}
				nw.ex.Thread("G1", func() { nw.a.n.Send(nw.a.pids["C1"], "go") })
				nw.ex.Thread("G2", func() { nw.a.n.Send(nw.a.pids["C2"], "go") })
				nw.ex.Thread("G3", func() { nw.a.n.Send(nw.a.pids["C3"], "go") })
				nw.Check = func() {
					if len(results) != 6 {
						nw.ex.Fail("caller-stuck", "%d of 6 remote calls returned", len(results))
					}
					for _, r := range results {
						want := "re:" + r.q + strings.Repeat(r.q[len(r.q)-1:], 40)
						switch {
						case r.err != nil:
							nw.ex.Fail("remote-call-failed", "call %q over a healthy connection returned %v", r.q, r.err)
						case fmt.Sprintf("%s", r.v) != want:
							nw.ex.Fail("foreign-response", "remote call %q returned %.60q, the reply made for it is %.60q", r.q, r.v, want)
						}
					}
					nw.Out("n=%d", len(results))
				}
			})})
		}})
	}
}
