//go:build verif

package node

import (
	"errors"
	"fmt"
	"strings"

	"ergo.services/ergo/act"
	"ergo.services/ergo/gen"
	"verif.local/vsched"
	"verif.local/vsched/harn"
)

// C05 — termination happens once, with the right reason, and is final.

type c05opt struct {
	qb, tb  int
	causes  []string // reason texts injected in this scenario
	exact   bool     // exactly one cause: the reason must be it
	survive bool     // the target must still be alive at the end
	mustEnd bool     // the target must have ended
	tiers   string
	extra   func(w *World) // further clauses, evaluated after the common ones
}

func reasonOf(s string) string {
	// exit signals are wrapped as "<pid>: reason"
	if i := strings.LastIndex(s, ": "); i >= 0 && (strings.HasPrefix(s, "<") || strings.HasPrefix(s, "Alias#<") || strings.HasPrefix(s, "Event#<")) {
		return s[i+2:]
	}
	return s
}

func c05Scenario(name string, o c05opt, build func(w *World)) {
	harn.Register(harn.Scenario{Property: "C05", Name: name, Tiers: o.tiers, Run: func(c *harn.Ctx) *harn.Result {
		return harn.Explore(c, harn.Sched{QuickBound: o.qb, ThoroughBound: o.tb, Preempt: true, Cache: true,
			Body: nodeBody(func(w *World) {
				build(w)
				w.Check = func() {
					r := w.recs["R"]
					alive := w.alive("R")
					w.finalOracle("R")
					if !alive && len(r.term) == 0 {
						w.ex.Fail("no-terminate-callback", "R is gone but Terminate never ran; log=%v", r.log)
					}
					if alive && len(r.term) > 0 {
						w.ex.Fail("terminate-but-alive", "Terminate ran (%v) but R is still registered", r.term)
					}
					if o.survive && !alive {
						w.ex.Fail("trapped-exit-terminated", "R trapped exits and must survive a signal from a non-parent; term=%v log=%v", r.term, r.log)
					}
					if o.mustEnd && alive {
						w.ex.Fail("not-terminated", "R must have terminated; log=%v", r.log)
					}
					ok := func(reason string) bool {
						for _, c := range o.causes {
							if reasonOf(reason) == c {
								return true
							}
						}
						return false
					}
					for _, t := range r.term {
						if !ok(t) {
							w.ex.Fail("wrong-reason", "Terminate got %q, injected causes %v", t, o.causes)
						}
					}
					// observers: one exit (link) and one down (monitor), same reason as the callback
					if or := w.recs["O"]; or != nil {
						var exits, downs []string
						for _, l := range or.log {
							if strings.HasPrefix(l, "M:exitpid(") {
								exits = append(exits, strings.TrimSuffix(strings.TrimPrefix(l, "M:exitpid("), ")"))
							}
							if strings.HasPrefix(l, "M:downpid(") {
								downs = append(downs, strings.TrimSuffix(strings.TrimPrefix(l, "M:downpid("), ")"))
							}
						}
						if !alive {
							if len(exits) != 1 || len(downs) != 1 {
								w.ex.Fail("observer-count", "R ended: observer got exits=%v downs=%v (want one each)", exits, downs)
							}
						} else if len(exits)+len(downs) > 0 {
							w.ex.Fail("observer-spurious", "R alive but observer got exits=%v downs=%v", exits, downs)
						}
						for _, x := range append(exits, downs...) {
							if !ok(x) {
								w.ex.Fail("wrong-reason", "observer got reason %q, injected causes %v", x, o.causes)
							}
							if len(r.term) == 1 && reasonOf(r.term[0]) != x {
								w.ex.Fail("reason-mismatch", "Terminate got %q but observer was told %q", r.term[0], x)
							}
						}
						w.Out("obs=%v/%v", exits, downs)
					}
					if o.extra != nil {
						o.extra(w)
					}
					w.Out("alive=%v term=%v log=%s", alive, r.term, strings.Join(r.log, ","))
				}
			})})
	}})
}

var errX = errors.New("X")

func failer(p *probe, from gen.PID, m any) error {
	switch m {
	case "fail":
		return errE
	case "panic":
		panic("boom")
	case "normal":
		return gen.TerminateReasonNormal
	case "fail-other":
		return errX
	}
	if g, ok := m.(*vsched.Gate); ok {
		// stay inside this callback until the gate opens, then fail with a reason of its own
		g.Wait()
		return errX
	}
	return nil
}

func init() {
	target := func(w *World, trap bool) gen.PID {
		pid := w.spawnProbe("R", probeCfg{trap: trap, onMsg: failer}, gen.ProcessOptions{})
		w.watch("O", pid)
		return pid
	}
	stranger := func(w *World, pid gen.PID) {
		w.spawnProbe("Z", probeCfg{onMsg: func(p *probe, from gen.PID, m any) error {
			p.SendExit(pid, errX)
			return nil
		}}, gen.ProcessOptions{})
	}
	// single causes: the exact reason
	for _, sc := range []struct{ name, msg, cause string }{{"single-error", "fail", "E"}, {"single-panic", "panic", "panic"}, {"single-normal", "normal", "normal"}} {
		sc := sc
		c05Scenario(sc.name, c05opt{qb: 1, tb: 2, causes: []string{sc.cause}, mustEnd: true}, func(w *World) {
			pid := target(w, false)
			w.ex.Thread("S1", func() { w.n.Send(pid, sc.msg) })
			w.ex.Thread("S2", func() { w.n.Send(pid, "b") })
		})
	}
	// the Terminate callback itself panics: still exactly one invocation, with the original reason
	for _, cause := range []string{"fail", "kill", "exit"} {
		cause := cause
		want := map[string]string{"fail": "E", "kill": "kill", "exit": "X"}[cause]
		c05Scenario("terminate-callback-panics-"+cause, c05opt{qb: 1, tb: 2, causes: []string{want}, mustEnd: true}, func(w *World) {
			pid := w.spawnProbe("R", probeCfg{onMsg: failer, onTerm: func(p *probe, reason error) { panic("boom in Terminate") }}, gen.ProcessOptions{})
			w.watch("O", pid)
			switch cause {
			case "fail":
				w.ex.Thread("S1", func() { w.n.Send(pid, "fail") })
			case "kill":
				w.ex.Thread("K", func() { w.n.Kill(pid) })
			default:
				w.ex.Thread("X", func() { w.n.SendExit(pid, errX) })
			}
			w.ex.Thread("S2", func() { w.n.Send(pid, "b") })
		})
	}
	c05Scenario("single-kill", c05opt{qb: 1, tb: 2, causes: []string{"kill"}, mustEnd: true}, func(w *World) {
		pid := target(w, false)
		w.ex.Thread("K", func() { w.n.Kill(pid) })
		w.ex.Thread("S2", func() { w.n.Send(pid, "b") })
	})
	c05Scenario("single-parent-exit", c05opt{qb: 1, tb: 2, causes: []string{"X"}, mustEnd: true}, func(w *World) {
		pid := target(w, true) // traps, but the node is its parent: never trapped
		w.ex.Thread("X", func() { w.n.SendExit(pid, errX) })
		w.ex.Thread("S2", func() { w.n.Send(pid, "b") })
	})
	c05Scenario("single-stranger-exit", c05opt{qb: 1, tb: 2, causes: []string{"X"}, mustEnd: true}, func(w *World) {
		pid := target(w, false)
		stranger(w, pid)
		w.ex.Thread("X", func() { w.n.Send(w.pids["Z"], "go") })
		w.ex.Thread("S2", func() { w.n.Send(pid, "b") })
	})
	c05Scenario("trapped-stranger-exit", c05opt{qb: 1, tb: 2, causes: nil, survive: true}, func(w *World) {
		pid := target(w, true)
		stranger(w, pid)
		w.ex.Thread("X", func() { w.n.Send(w.pids["Z"], "go") })
		w.ex.Thread("S2", func() { w.n.Send(pid, "b") })
		prev := w.Check
		_ = prev
	})
	// exit signals of links to a name, an alias and an event carry the node's core pid as sender - which is also the
	// parent of a process spawned by the node itself: a trapping process still gets them as ordinary messages and
	// keeps running; a process that does not trap terminates with the target's reason
	for _, kind := range []string{"name", "alias", "event"} {
		for _, trap := range []bool{true, false} {
			kind, trap := kind, trap
			name := map[bool]string{true: "trapped-", false: "untrapped-"}[trap] + kind + "-link-exit"
			o := c05opt{qb: 1, tb: 2, survive: trap, mustEnd: !trap, causes: []string{"kill"}}
			o.extra = func(w *World) {
				n := 0
				for _, l := range w.recs["R"].log {
					if l == "M:exit"+kind+"(kill)" {
						n++
					}
				}
				if trap && n != 1 {
					w.ex.Fail("trapped-exit-not-a-message", "R traps exits and is linked to the %s of a process that was killed: it handled %d exit messages (want 1); log=%v", kind, n, w.recs["R"].log)
				}
				if !trap && n != 0 {
					w.ex.Fail("untrapped-exit-as-message", "R does not trap exits, yet the exit signal was handed to HandleMessage; log=%v", w.recs["R"].log)
				}
			}
			c05Scenario(name, o, func(w *World) {
				pid := target(w, trap)
				r := &rec{name: "T"}
				w.recs["T"] = r
				w.Setup("spawnT", func() {
					tp, err := w.n.SpawnRegister("tname", func() gen.ProcessBehavior { return &probe{} }, gen.ProcessOptions{}, probeCfg{rec: r})
					if err != nil {
						panic(err)
					}
					w.pids["T"] = tp
				})
				var al gen.Alias
				w.Do("T", func(p *probe) error {
					al, _ = p.CreateAlias()
					_, err := p.RegisterEvent("tev", gen.EventOptions{})
					return err
				})
				w.Do("R", func(p *probe) error {
					var err error
					switch kind {
					case "name":
						err = p.LinkProcessID(gen.ProcessID{Name: "tname", Node: w.n.Name()})
					case "alias":
						err = p.LinkAlias(al)
					default:
						_, err = p.LinkEvent(gen.Event{Name: "tev", Node: w.n.Name()})
					}
					if err != nil {
						panic(err)
					}
					return nil
				})
				w.ex.Thread("K", func() { w.n.Kill(w.pids["T"]) })
				w.ex.Thread("S2", func() { w.n.Send(pid, "b") })
			})
		}
	}
	// killed while still in Init (the pid is known to the killer from Init itself): either the kill finds no such
	// process yet and it lives on, or it terminates once and handles nothing afterwards
	c05Scenario("kill-during-init", c05opt{qb: 2, tb: 3, causes: []string{"kill"}}, func(w *World) {
		r := &rec{name: "R"}
		w.recs["R"] = r
		var pid gen.PID
		known := false
		w.ex.Thread("SP", func() {
			p, err := w.n.Spawn(func() gen.ProcessBehavior { return &probe{} }, gen.ProcessOptions{}, probeCfg{rec: r, onInit: func(p *probe) error {
				pid, known = p.PID(), true
				p.Send(p.PID(), "self1")
				p.Send(p.PID(), "self2")
				return nil
			}})
			if err == nil {
				w.pids["R"] = p
			}
		})
		w.ex.Thread("K", func() {
			vsched.Block(vsched.OpUser, 0, func() bool { return known })
			w.n.Kill(pid)
		})
	})
	// a graceful node stop is a shutdown from the parent for every process, also for one that traps exits and was
	// spawned by another process: it terminates with that reason and is not handed the signal as a message
	c05Scenario("node-stop-trapping-child-of-a-process", c05opt{qb: 1, tb: 2, causes: []string{"shutdown"}, mustEnd: true, extra: func(w *World) {
		for _, l := range w.recs["R"].log {
			if strings.HasPrefix(l, "M:exitpid(") {
				w.ex.Fail("parent-exit-as-message", "the shutdown of the node reached a trapping process as an ordinary message: log=%v", w.recs["R"].log)
			}
		}
	}}, func(w *World) {
		w.spawnProbe("PARENT", probeCfg{}, gen.ProcessOptions{})
		r := &rec{name: "R"}
		w.recs["R"] = r
		w.Do("PARENT", func(p *probe) error {
			pid, err := p.Spawn(func() gen.ProcessBehavior { return &probe{} }, gen.ProcessOptions{}, probeCfg{rec: r, trap: true})
			if err != nil {
				panic(err)
			}
			w.pids["R"] = pid
			return nil
		})
		w.ex.Thread("STOP", func() { w.n.Stop() })
		w.ex.Thread("S2", func() { w.n.Send(w.pids["R"], "b") })
	})
	// a supervisor told to stop by an exit signal ends with THAT reason - for its callback and for its observers -
	// also when its last child, busy at the time, is killed meanwhile and so ends with another reason
	for tn, typ := range map[string]act.SupervisorType{"ofo": act.SupervisorTypeOneForOne, "afo": act.SupervisorTypeAllForOne, "rfo": act.SupervisorTypeRestForOne, "sofo": act.SupervisorTypeSimpleOneForOne} {
		tn, typ := tn, typ
		harn.Register(harn.Scenario{Property: "C05", Name: "supervisor-" + tn + "-stopped-by-signal-last-child-killed", Run: func(c *harn.Ctx) *harn.Result {
			return harn.Explore(c, harn.Sched{QuickBound: 1, ThoroughBound: 2, Preempt: false, Cache: true, HorizonS: 30, Body: nodeBody(func(w *World) {
				t := newTree(w)
				t.factories = map[string]gen.ProcessFactory{}
				f := t.sup("S", typ, "w1", "w2")
				w.Setup("start", func() {
					if _, err := w.n.Spawn(f, gen.ProcessOptions{}); err != nil {
						panic(err)
					}
				})
				if typ == act.SupervisorTypeSimpleOneForOne {
					for _, m := range []string{"w1", "w2"} {
						m := m
						w.nsetup++
						w.Setup(fmt.Sprintf("startchild%d", w.nsetup), func() { w.n.Send(w.pids["S"], startChildMsg{m}) })
					}
				}
				o := w.spawnObserver("O")
				w.Do("O", func(p *probe) error {
					if err := p.LinkPID(w.pids["S"]); err != nil {
						panic(err)
					}
					return p.MonitorPID(w.pids["S"])
				})
				g := &vsched.Gate{}
				w.Setup("park", func() { w.n.Send(w.pids["w2"], g) })
				// the signal comes from a process that is not the supervisor's parent: the supervisor stops its children
				// first and then ends with the signal's reason
				// (reason STOP: no child ends with that reason on its own)
				errStop := errors.New("STOP")
				spid := w.pids["S"]
				w.spawnProbe("Z", probeCfg{onMsg: func(p *probe, from gen.PID, m any) error {
					p.SendExit(spid, errStop)
					return nil
				}}, gen.ProcessOptions{})
				w.ex.Thread("X", func() { w.n.Send(w.pids["Z"], "go") })
				w.ex.ThreadLow("K", func() { w.n.Kill(w.pids["w2"]) })
				w.ex.ThreadLow("G", func() { g.Open() })
				w.Check = func() {
					if t.anyAlive("S") {
						w.ex.Fail("not-terminated", "the supervisor got an exit signal (reason STOP) and is still running")
						return
					}
					if got := fmt.Sprint(t.termOf["S"]); got != "[STOP]" {
						w.ex.Fail("wrong-reason", "the supervisor was stopped by an exit signal with reason STOP; its Terminate callback was given %s", got)
					}
					for _, nf := range o.notifs {
						if !strings.HasSuffix(nf, ":STOP") {
							w.ex.Fail("wrong-reason", "the supervisor was stopped by an exit signal with reason STOP; its observer was told %q", nf)
						}
					}
					if len(o.notifs) != 2 {
						w.ex.Fail("observer-count", "the supervisor ended; its linked and monitoring observer got %v", o.notifs)
					}
					w.Out("term=%v notifs=%v", t.termOf["S"], o.notifs)
				}
			})})
		}})
	}
	// pairs of causes racing
	pair := func(name string, causes []string, a, b func(w *World, pid gen.PID)) {
		c05Scenario(name, c05opt{qb: 2, tb: 3, causes: causes, mustEnd: true}, func(w *World) {
			pid := target(w, false)
			stranger(w, pid)
			w.ex.Thread("A", func() { a(w, pid) })
			w.ex.Thread("B", func() { b(w, pid) })
		})
	}
	sendFail := func(w *World, pid gen.PID) { w.n.Send(pid, "fail") }
	sendPanic := func(w *World, pid gen.PID) { w.n.Send(pid, "panic") }
	kill := func(w *World, pid gen.PID) { w.n.Kill(pid) }
	pexit := func(w *World, pid gen.PID) { w.n.SendExit(pid, errX) }
	sexit := func(w *World, pid gen.PID) { w.n.Send(w.pids["Z"], "go") }
	pair("error-vs-kill", []string{"E", "kill"}, sendFail, kill)
	pair("panic-vs-kill", []string{"panic", "kill"}, sendPanic, kill)
	pair("error-vs-parent-exit", []string{"E", "X"}, sendFail, pexit)
	pair("kill-vs-parent-exit", []string{"kill", "X"}, kill, pexit)
	pair("kill-vs-stranger-exit", []string{"kill", "X"}, kill, sexit)
	pair("kill-vs-kill", []string{"kill"}, kill, kill)
	pair("panic-vs-error", []string{"panic", "E"}, sendPanic, sendFail)
	// target busy inside a callback while two kills arrive, then the callback returns
	c05Scenario("busy-kill-kill", c05opt{qb: 2, tb: 3, causes: []string{"kill"}, mustEnd: true}, func(w *World) {
		g := &vsched.Gate{}
		pid := w.spawnProbe("R", probeCfg{onMsg: func(p *probe, from gen.PID, m any) error {
			if m == "park" {
				g.Wait()
			}
			return nil
		}}, gen.ProcessOptions{})
		w.watch("O", pid)
		w.Setup("park", func() { w.n.Send(pid, "park") })
		w.ex.Thread("K1", func() { w.n.Kill(pid) })
		w.ex.Thread("K2", func() { w.n.Kill(pid) })
		w.ex.Thread("G", func() { g.Open() })
	})
	// target waiting for a response when it is killed; the call's (virtual) timer ends the wait
	c05Scenario("waitresponse-kill", c05opt{qb: 1, tb: 2, causes: []string{"kill"}, mustEnd: true}, func(w *World) {
		spid := w.spawnProbe("S", probeCfg{onCall: func(p *probe, from gen.PID, ref gen.Ref, m any) (any, error) { return nil, nil }}, gen.ProcessOptions{})
		pid := w.spawnProbe("R", probeCfg{onMsg: func(p *probe, from gen.PID, m any) error {
			if m == "docall" {
				_, err := p.Call(spid, "q")
				p.r.log = append(p.r.log, fmt.Sprintf("callerr=%v", err))
			}
			return nil
		}}, gen.ProcessOptions{})
		w.watch("O", pid)
		w.ex.Thread("S1", func() { w.n.Send(pid, "docall") })
		w.ex.Thread("K1", func() { w.n.Kill(pid) })
	})
	// meta process: termination causes racing (Start returns, handler error, owner killed)
	metaSc := func(name string, causes []string, build func(w *World, id gen.Alias, mp *metaProbe)) {
		harn.Register(harn.Scenario{Property: "C05", Name: name, Run: func(c *harn.Ctx) *harn.Result {
			return harn.Explore(c, harn.Sched{QuickBound: 2, ThoroughBound: 3, Preempt: true, Cache: true, Body: nodeBody(func(w *World) {
				id, mp := w.spawnMeta("R", gen.MetaOptions{})
				mp.onMsg = func(m *metaProbe, from gen.PID, msg any) error {
					if msg == "fail" {
						return errE
					}
					return nil
				}
				build(w, id, mp)
				w.Check = func() {
					r := w.recs["R"]
					w.finalOracle("R")
					_, err := w.n.MetaInfo(id)
					alive := err == nil
					if !alive && len(r.term) == 0 {
						w.ex.Fail("no-terminate-callback", "meta process is gone but Terminate never ran; log=%v", r.log)
					}
					if alive && len(r.term) > 0 {
						w.ex.Fail("terminate-but-alive", "meta Terminate ran (%v) but the meta process is still there", r.term)
					}
					for _, t := range r.term {
						ok := false
						for _, c := range causes {
							ok = ok || t == c
						}
						if !ok {
							w.ex.Fail("wrong-reason", "meta Terminate got %q, injected causes %v", t, causes)
						}
					}
					w.Out("alive=%v term=%v log=%s", alive, r.term, strings.Join(r.log, ","))
				}
			})})
		}})
	}
	metaSc("meta-startreturns-vs-fail", []string{"normal", "E"}, func(w *World, id gen.Alias, mp *metaProbe) {
		w.ex.Thread("G", func() { mp.start.Open() })
		w.ex.Thread("S1", func() { w.n.Send(id, "fail") })
	})
	metaSc("meta-startreturns-vs-send", []string{"normal"}, func(w *World, id gen.Alias, mp *metaProbe) {
		w.ex.Thread("G", func() { mp.start.Open() })
		w.ex.Thread("S1", func() { w.n.Send(id, "a"); w.n.Send(id, "b") })
	})
	metaSc("meta-ownerkill-vs-fail", []string{"kill", "E"}, func(w *World, id gen.Alias, mp *metaProbe) {
		w.ex.Thread("K", func() { w.n.Kill(w.pids["PR"]) })
		w.ex.Thread("S1", func() { w.n.Send(id, "fail") })
	})
	metaSc("meta-fail-vs-fail", []string{"E"}, func(w *World, id gen.Alias, mp *metaProbe) {
		w.ex.Thread("S1", func() { w.n.Send(id, "fail") })
		w.ex.Thread("S2", func() { w.n.Send(id, "fail") })
	})
	// a meta process is terminated through its mailbox while Start() is still blocked; Start() then panics
	for _, how := range []string{"handler-error", "owner-killed"} {
		how := how
		metaSc("meta-start-panics-after-"+how, []string{"E", "kill"}, func(w *World, id gen.Alias, mp *metaProbe) {
			mp.startPanics = true
			if how == "handler-error" {
				w.Setup("end-meta", func() { w.n.Send(id, "fail") })
			} else {
				w.Setup("end-meta", func() { w.n.Kill(w.pids["PR"]) })
			}
			w.ex.Thread("G", func() { mp.start.Open() })
		})
	}
	// termination during init: init returns an error => no Terminate callback, spawn fails
	harn.Register(harn.Scenario{Property: "C05", Name: "init-error", Run: func(c *harn.Ctx) *harn.Result {
		return harn.Explore(c, harn.Sched{QuickBound: 1, ThoroughBound: 2, Preempt: true, Cache: true,
			Body: nodeBody(func(w *World) {
				r := &rec{name: "R"}
				w.recs["R"] = r
				var serr error
				var pid gen.PID
				w.ex.Thread("SP", func() {
					pid, serr = w.n.SpawnRegister("rname", func() gen.ProcessBehavior { return &probe{} }, gen.ProcessOptions{}, probeCfg{rec: r, onInit: func(p *probe) error { return errE }})
				})
				w.ex.Thread("S1", func() { w.n.Send(gen.Atom("rname"), "a") })
				w.Check = func() {
					if serr == nil {
						w.ex.Fail("init-error-ignored", "spawn succeeded although Init returned an error")
					}
					if len(handled(r, "M:")) > 0 {
						w.ex.Fail("callback-after-failed-init", "a process whose Init failed handled %v", handled(r, "M:"))
					}
					if _, err := w.n.ProcessInfo(pid); err == nil && pid != (gen.PID{}) {
						w.ex.Fail("failed-init-registered", "process is listed although its Init failed")
					}
					if err := w.n.Send(gen.Atom("rname"), "x"); err == nil {
						w.ex.Fail("failed-init-name-kept", "name of a process whose Init failed is still registered")
					}
					w.Out("log=%v", r.log)
				}
			})})
	}})
}
