//go:build verif

package node

import (
	"fmt"
	"sync/atomic"

	"ergo.services/ergo/act"
	"ergo.services/ergo/gen"
	"verif.local/vsched/harn"
)

// C07 — the reference a callee is shown is all that ties its reply to a request: two requests of one caller must
// never be presented with equal references, whichever form of the request API made them and however far apart
// the node's reference counter was when they were made.

type refCallee struct {
	act.Actor
	seen  chan gen.Ref
	alias gen.Alias
}

func (c *refCallee) HandleMessage(from gen.PID, message any) error {
	if message == "mkalias" {
		c.alias, _ = c.CreateAlias()
		c.seen <- gen.Ref{}
	}
	return nil
}

func (c *refCallee) HandleCall(from gen.PID, ref gen.Ref, request any) (any, error) {
	c.seen <- ref
	return "ok", nil
}

type refCaller struct {
	act.Actor
	done chan error
}

type refCallReq struct {
	form  string
	pid   gen.PID
	alias gen.Alias
	name  gen.Atom
}

func (c *refCaller) HandleMessage(from gen.PID, message any) error {
	r, ok := message.(refCallReq)
	if !ok {
		return nil
	}
	var err error
	switch r.form {
	case "Call":
		_, err = c.Call(r.pid, "q")
	case "CallImportant":
		_, err = c.CallImportant(r.pid, "q")
	case "CallPID+important-flag":
		c.SetImportantDelivery(true)
		_, err = c.CallPID(r.pid, "q", 5)
		c.SetImportantDelivery(false)
	case "CallWithPriority":
		_, err = c.CallWithPriority(r.pid, "q", gen.MessagePriorityHigh)
	case "CallAlias":
		_, err = c.CallAlias(r.alias, "q", 5)
	case "CallAlias+important-flag":
		c.SetImportantDelivery(true)
		_, err = c.CallAlias(r.alias, "q", 5)
		c.SetImportantDelivery(false)
	case "CallProcessID":
		_, err = c.CallProcessID(gen.ProcessID{Name: r.name, Node: c.Node().Name()}, "q", 5)
	case "CallProcessID+important-flag":
		c.SetImportantDelivery(true)
		_, err = c.CallProcessID(gen.ProcessID{Name: r.name, Node: c.Node().Name()}, "q", 5)
		c.SetImportantDelivery(false)
	}
	c.done <- err
	return nil
}

func init() {
	harn.Register(harn.Scenario{Property: "C07", Name: "request-references-as-presented", Run: func(c *harn.Ctx) *harn.Result {
		r := harn.NewResult("enum")
		n := startNode("verif@localhost", gen.NetworkModeDisabled)
		defer dropNode(n)
		callee := &refCallee{seen: make(chan gen.Ref, 4)}
		caller := &refCaller{done: make(chan error, 4)}
		cpid, err := n.SpawnRegister("refcallee", func() gen.ProcessBehavior { return callee }, gen.ProcessOptions{})
		if err != nil {
			panic(err)
		}
		n.Send(cpid, "mkalias")
		<-callee.seen
		alias := callee.alias
		rpid, err := n.Spawn(func() gen.ProcessBehavior { return caller }, gen.ProcessOptions{})
		if err != nil {
			panic(err)
		}
		forms := []string{"Call", "CallImportant", "CallPID+important-flag", "CallWithPriority", "CallProcessID", "CallProcessID+important-flag"}
		if alias != (gen.Alias{}) {
			forms = append(forms, "CallAlias", "CallAlias+important-flag")
		}
		// distances between the counter values of the two requests: around every power of two up to 2^40
		var dists []uint64
		for k := uint(1); k <= 40; k++ {
			for _, d := range []uint64{(1 << k) - 1, 1 << k, (1 << k) + 1} {
				dists = append(dists, d)
			}
		}
		bases := []uint64{atomic.LoadUint64(&n.uniqID), (1 << 18) - 3, uint64(12345)<<18 + 77, (1 << 36) - 1}
		one := func(form string) (gen.Ref, error) {
			if err := n.Send(rpid, refCallReq{form: form, pid: cpid, alias: alias, name: "refcallee"}); err != nil {
				return gen.Ref{}, err
			}
			if err := <-caller.done; err != nil {
				return gen.Ref{}, err
			}
			return <-callee.seen, nil
		}
		for _, form := range forms {
			for _, base := range bases {
				for _, d := range dists {
					atomic.StoreUint64(&n.uniqID, base)
					r1, e1 := one(form)
					atomic.StoreUint64(&n.uniqID, base+d)
					r2, e2 := one(form)
					r.Executions++
					if e1 != nil || e2 != nil {
						r.Fail("request-failed", "%s to a live local callee failed: %v / %v", form, e1, e2)
						return r
					}
					if r1 == r2 {
						r.Fail("reference-repeated", "%s: two requests of one caller made with the node's reference counter at %d and %d (distance %d) were presented to the callee with the same reference %v: a late reply to the first is a reply to the second", form, base, base+d, d, r1.ID)
						break
					}
				}
			}
			r.Outcomes[form]++
		}
		r.States, r.Transitions, r.Distinct = len(forms), r.Executions, len(forms)
		r.Samples = append(r.Samples, map[string]any{"forms": forms, "counter_bases": len(bases), "distances": fmt.Sprintf("2^k-1, 2^k, 2^k+1 for k=1..40 (%d)", len(dists))})
		return r
	}})
}
