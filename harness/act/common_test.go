//go:build verif

package act

import (
	"fmt"
	"sort"
	"testing"

	"ergo.services/ergo/gen"
	"ergo.services/ergo/lib"
	"verif.local/vsched/harn"
)

func TestVerif(t *testing.T) { harn.Main(t) }

// ---- fake process: a real mailbox, fresh pids for Spawn, recorded exit requests ---------------

type nolog struct{ f *fakeProc }

func (nolog) Level() gen.LogLevel         { return gen.LogLevelDisabled }
func (nolog) SetLevel(gen.LogLevel) error { return nil }
func (nolog) Logger() string              { return "" }
func (nolog) SetLogger(string)            {}
func (nolog) Fields() []gen.LogField      { return nil }
func (nolog) AddFields(...gen.LogField)   {}
func (nolog) DeleteFields(...string)      {}
func (nolog) PushFields() int             { return 0 }
func (nolog) PopFields() int              { return 0 }
func (nolog) Trace(string, ...any)        {}
func (nolog) Debug(string, ...any)        {}
func (nolog) Info(string, ...any)         {}
func (nolog) Warning(string, ...any)      {}
func (nolog) Error(string, ...any)        {}
func (l nolog) Panic(f string, a ...any)  { l.f.panics = append(l.f.panics, fmt.Sprintf(f, a...)) }

type fakeChild struct {
	spec gen.Atom
	gen  int // generation of this spec (1 = first start)
	link bool
}

type fakeProc struct {
	gen.Process // nil: any method that is not overridden panics loudly
	beh         gen.ProcessBehavior
	mbox        gen.ProcessMailbox
	pid         gen.PID
	nextID      uint64
	live        map[gen.PID]*fakeChild
	names       map[gen.Atom]gen.PID
	gens        map[gen.Atom]int
	exitReq     map[gen.PID]error // exit requested, not yet delivered
	exitOrder   []gen.PID         // order in which exits were requested
	spawnOrder  []gen.Atom
	panics      []string
	failSpawn   map[gen.Atom]bool
	sent        []any
}

func newFake(b gen.ProcessBehavior) *fakeProc {
	return &fakeProc{
		beh:    b,
		mbox:   gen.ProcessMailbox{Main: lib.NewQueueMPSC(), System: lib.NewQueueMPSC(), Urgent: lib.NewQueueMPSC(), Log: lib.NewQueueMPSC()},
		pid:    gen.PID{Node: "n@h", ID: 1000, Creation: 1},
		nextID: 1000, live: map[gen.PID]*fakeChild{}, names: map[gen.Atom]gen.PID{}, gens: map[gen.Atom]int{}, exitReq: map[gen.PID]error{},
		failSpawn: map[gen.Atom]bool{},
	}
}
func (f *fakeProc) Behavior() gen.ProcessBehavior { return f.beh }
func (f *fakeProc) Mailbox() gen.ProcessMailbox   { return f.mbox }
func (f *fakeProc) State() gen.ProcessState       { return gen.ProcessStateRunning }
func (f *fakeProc) PID() gen.PID                  { return f.pid }
func (f *fakeProc) Name() gen.Atom                { return "" }
func (f *fakeProc) Parent() gen.PID               { return gen.PID{Node: "n@h", ID: 1, Creation: 1} }
func (f *fakeProc) Log() gen.Log                  { return nolog{f} }

var errSpawn = fmt.Errorf("spawn failed")

func (f *fakeProc) spawn(name gen.Atom, spec gen.Atom, o gen.ProcessOptions) (gen.PID, error) {
	if f.failSpawn[spec] {
		return gen.PID{}, errSpawn
	}
	if name != "" {
		if _, taken := f.names[name]; taken {
			return gen.PID{}, gen.ErrTaken
		}
	}
	f.nextID++
	pid := gen.PID{Node: "n@h", ID: f.nextID, Creation: 1}
	f.gens[spec]++
	f.live[pid] = &fakeChild{spec: spec, gen: f.gens[spec], link: o.LinkChild}
	if name != "" {
		f.names[name] = pid
	}
	f.spawnOrder = append(f.spawnOrder, spec)
	return pid, nil
}

// The supervisor passes the spec name through SpawnRegister (register=true) or, for simple-one-
// for-one, calls Spawn; the factory of the harness specs carries the spec name.
func (f *fakeProc) Spawn(fa gen.ProcessFactory, o gen.ProcessOptions, a ...any) (gen.PID, error) {
	spec := gen.Atom("?")
	if b, ok := fa().(*childMarker); ok {
		spec = b.spec
	}
	return f.spawn("", spec, o)
}
func (f *fakeProc) SpawnRegister(name gen.Atom, fa gen.ProcessFactory, o gen.ProcessOptions, a ...any) (gen.PID, error) {
	return f.spawn(name, name, o)
}
func (f *fakeProc) SendExit(to gen.PID, reason error) error {
	if _, ok := f.live[to]; !ok {
		return gen.ErrProcessUnknown
	}
	if _, dup := f.exitReq[to]; !dup {
		f.exitReq[to] = reason
		f.exitOrder = append(f.exitOrder, to)
	}
	return nil
}
func (f *fakeProc) Send(to any, m any) error {
	// messages the supervisor sends to itself (HandleChildStart/Terminate notifications)
	if pid, ok := to.(gen.PID); ok && pid == f.pid {
		qm := gen.TakeMailboxMessage()
		qm.From = f.pid
		qm.Type = gen.MailboxMessageTypeRegular
		qm.Message = m
		f.mbox.Main.Push(qm)
		return nil
	}
	f.sent = append(f.sent, m)
	return nil
}
func (f *fakeProc) SendResponse(gen.PID, gen.Ref, any) error { return nil }

// die: the child leaves the tables (as node.unregisterProcess does) and the exit signal reaches the
// supervisor through the link (Urgent queue)
func (f *fakeProc) die(pid gen.PID, reason error) {
	c := f.live[pid]
	delete(f.live, pid)
	delete(f.exitReq, pid)
	for n, p := range f.names {
		if p == pid {
			delete(f.names, n)
		}
	}
	if c != nil && !c.link {
		return // never linked: the supervisor cannot know
	}
	qm := gen.TakeMailboxMessage()
	qm.From = pid
	qm.Type = gen.MailboxMessageTypeExit
	qm.Message = gen.MessageExitPID{PID: pid, Reason: reason}
	f.mbox.Urgent.Push(qm)
}

func (f *fakeProc) strangerExit(reason error) {
	from := gen.PID{Node: "n@h", ID: 77, Creation: 1}
	qm := gen.TakeMailboxMessage()
	qm.From = from
	qm.Type = gen.MailboxMessageTypeExit
	qm.Message = gen.MessageExitPID{PID: from, Reason: reason}
	f.mbox.Urgent.Push(qm)
}

// livePid returns the live pid of (spec, k-th oldest instance), ok=false if none
func (f *fakeProc) liveOf(spec gen.Atom) []gen.PID {
	var pids []gen.PID
	for p, c := range f.live {
		if c.spec == spec {
			pids = append(pids, p)
		}
	}
	sort.Slice(pids, func(i, j int) bool { return pids[i].ID < pids[j].ID })
	return pids
}

type childMarker struct {
	gen.ProcessBehavior
	spec gen.Atom
}

func markerFactory(spec gen.Atom) gen.ProcessFactory {
	return func() gen.ProcessBehavior { return &childMarker{spec: spec} }
}

// supervisor under test: the real act.Supervisor with a spec supplied by the harness
type tsup struct {
	Supervisor
	spec      SupervisorSpec
	started   []string
	stopped   []string
	onMessage func(s *tsup, m any) error
}

func (s *tsup) Init(args ...any) (SupervisorSpec, error) { return s.spec, nil }
func (s *tsup) HandleChildStart(name gen.Atom, pid gen.PID) error {
	s.started = append(s.started, string(name))
	return nil
}
func (s *tsup) HandleChildTerminate(name gen.Atom, pid gen.PID, reason error) error {
	s.stopped = append(s.stopped, string(name)+":"+reason.Error())
	return nil
}
func (s *tsup) HandleMessage(from gen.PID, m any) error {
	if s.onMessage != nil {
		return s.onMessage(s, m)
	}
	return nil
}
