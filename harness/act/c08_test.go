//go:build verif

package act

import (
	"errors"
	"fmt"
	"sort"
	"strings"

	"ergo.services/ergo/gen"
	"verif.local/vsched"
	"verif.local/vsched/harn"
)

// C08 — supervisor restart semantics. The REAL act.Supervisor (ProcessInit, ProcessRun,
// handleAction and the three state machines) is driven through a fake gen.Process; a reference
// model written from the documented semantics predicts the children after every event.

var errCrash = errors.New("crash")
var errStranger = errors.New("stranger")

type c08cfg struct {
	typ      SupervisorType
	strategy SupervisorStrategy
	keep     bool
	signif   int // index of the significant child, -1 none
	autoOff  bool
	nchild   int
	handle   bool
}

func (c c08cfg) name() string {
	t := map[SupervisorType]string{SupervisorTypeOneForOne: "ofo", SupervisorTypeAllForOne: "afo", SupervisorTypeRestForOne: "rfo", SupervisorTypeSimpleOneForOne: "sofo"}[c.typ]
	s := map[SupervisorStrategy]string{SupervisorStrategyTransient: "transient", SupervisorStrategyTemporary: "temporary", SupervisorStrategyPermanent: "permanent"}[c.strategy]
	n := fmt.Sprintf("%s-%s", t, s)
	if c.keep {
		n += "-keeporder"
	}
	if c.signif >= 0 {
		n += fmt.Sprintf("-sig%d", c.signif)
	}
	if c.autoOff {
		n += "-noautoshutdown"
	}
	if c.handle {
		n += "-handlechild"
	}
	return n
}

var specNames = []gen.Atom{"a", "b", "c", "d"}

func (c c08cfg) spec() SupervisorSpec {
	spec := SupervisorSpec{Type: c.typ, DisableAutoShutdown: c.autoOff, EnableHandleChild: c.handle}
	spec.Restart.Strategy = c.strategy
	spec.Restart.KeepOrder = c.keep
	spec.Restart.Intensity = 1000
	spec.Restart.Period = 1
	for i := 0; i < c.nchild; i++ {
		spec.Children = append(spec.Children, SupervisorChildSpec{Name: specNames[i], Factory: markerFactory(specNames[i]), Significant: i == c.signif})
	}
	return spec
}

// ---- system under test -----------------------------------------------------------------------

type sys struct {
	f     *fakeProc
	s     *tsup
	ended error
	panic string
}

func newSys(spec SupervisorSpec) *sys {
	s := &tsup{spec: spec}
	st := &sys{f: newFake(s), s: s}
	st.guard(func() {
		if err := s.ProcessInit(st.f); err != nil {
			st.ended = err
		}
	})
	return st
}

func (st *sys) guard(fn func()) {
	defer func() {
		if r := recover(); r != nil {
			st.panic = fmt.Sprint(r)
		}
	}()
	fn()
}

// run lets the supervisor drain its mailbox (as its runner goroutine would)
func (st *sys) run() {
	if st.ended != nil || st.panic != "" {
		return
	}
	st.guard(func() {
		if err := st.s.ProcessRun(); err != nil {
			st.ended = err
		}
	})
}

// ---- reference model for one-for-one / all-for-one / rest-for-one ---------------------------

type mchild struct {
	running  bool
	disabled bool
	gen      int
	stopping bool // an exit was requested
	inSet    bool // member of the stop set of the restart in progress
}

type model struct {
	cfg      c08cfg
	c        []mchild
	mode     string // idle | restart | shutdown
	from     int    // restart: first spec to start again
	ended    bool
	clean    bool // false once events overlapped in a way the model does not define
	expSpawn []gen.Atom
}

func newModel(cfg c08cfg) *model {
	m := &model{cfg: cfg, mode: "idle", clean: true}
	for i := 0; i < cfg.nchild; i++ {
		m.c = append(m.c, mchild{running: true, gen: 1})
		m.expSpawn = append(m.expSpawn, specNames[i])
	}
	return m
}

func (m *model) nRunning() int {
	n := 0
	for _, c := range m.c {
		if c.running {
			n++
		}
	}
	return n
}

func (m *model) startFrom(from int) {
	for i := from; i < len(m.c); i++ {
		if !m.c[i].disabled && !m.c[i].running {
			m.c[i].running = true
			m.c[i].gen++
			m.expSpawn = append(m.expSpawn, specNames[i])
		}
	}
	m.mode = "idle"
}

func (m *model) shutdown() {
	if m.nRunning() == 0 {
		m.ended = true
		return
	}
	m.mode = "shutdown"
	for i := range m.c {
		if m.c[i].running {
			m.c[i].stopping = true
		}
	}
}

// askNext marks which children are asked to stop during a restart
func (m *model) askStops() {
	for i := len(m.c) - 1; i >= m.from; i-- {
		if m.c[i].running && !m.c[i].disabled {
			m.c[i].stopping = true
			m.c[i].inSet = true
			if m.cfg.keep {
				return // one at a time, in reverse order
			}
		}
	}
}

func (m *model) pendingStops() int {
	n := 0
	for _, c := range m.c {
		if c.running && c.inSet {
			n++
		}
	}
	return n
}

func (m *model) anyStopping() bool {
	for _, c := range m.c {
		if c.running && c.stopping {
			return true
		}
	}
	return false
}

func abnormal(r error) bool {
	return r != gen.TerminateReasonNormal && r != gen.TerminateReasonShutdown
}

// died: child i is gone with reason r (spontaneously, or because a requested exit reached it)
func (m *model) died(i int, r error, requested bool) {
	c := &m.c[i]
	wasStopping := c.inSet
	c.running, c.stopping, c.inSet = false, false, false
	switch m.mode {
	case "shutdown":
		if m.nRunning() == 0 {
			m.ended = true
		}
		return
	case "restart":
		if !wasStopping && !requested {
			m.clean = false // a child outside the stop set died during the restart: not modelled
			return
		}
		if m.pendingStops() > 0 {
			return
		}
		// with KeepOrder the next one is asked; otherwise everything has stopped
		m.askStopsRemaining()
		if m.pendingStops() > 0 {
			return
		}
		m.startFrom(m.from)
		return
	}
	// idle
	if c.disabled {
		if m.nRunning() == 0 && !m.cfg.autoOff {
			m.ended = true
		}
		return
	}
	restart := false
	switch m.cfg.strategy {
	case SupervisorStrategyPermanent:
		restart = true
	case SupervisorStrategyTransient:
		restart = abnormal(r)
	}
	if !restart {
		if i == m.cfg.signif {
			m.shutdown()
			return
		}
		if m.nRunning() == 0 && !m.cfg.autoOff {
			m.ended = true
		}
		return
	}
	switch m.cfg.typ {
	case SupervisorTypeOneForOne:
		c.running = true
		c.gen++
		m.expSpawn = append(m.expSpawn, specNames[i])
	case SupervisorTypeAllForOne, SupervisorTypeRestForOne:
		m.from = 0
		if m.cfg.typ == SupervisorTypeRestForOne {
			m.from = i
		}
		m.mode = "restart"
		m.askStops()
		if m.pendingStops() == 0 {
			m.startFrom(m.from)
		}
	}
}

func (m *model) askStopsRemaining() {
	if m.cfg.keep {
		m.askStops()
	}
}

// ---- one BFS scenario per configuration --------------------------------------------------------

func c08Alphabet(n int) []string {
	var a []string
	for i := 0; i < n; i++ {
		x := string(specNames[i])
		a = append(a, "die."+x+".normal", "die."+x+".shutdown", "die."+x+".crash", "deliver."+x)
	}
	for i := 0; i < n; i++ {
		x := string(specNames[i])
		a = append(a, "start."+x, "disable."+x, "enable."+x)
	}
	a = append(a, "stranger")
	return a
}

// disabledFlags: the Disabled flag of every child spec as the supervisor reports it
func disabledFlags(s *tsup) string {
	out := ""
	seen := map[gen.Atom]bool{}
	for _, c := range s.Children() {
		if seen[c.Spec] {
			continue
		}
		seen[c.Spec] = true
		out += fmt.Sprintf("%s=%v ", c.Spec, c.Disabled)
	}
	return out
}

func idx(x string) int {
	for i, n := range specNames {
		if string(n) == x {
			return i
		}
	}
	return -1
}

func c08Run(cfg c08cfg, alphabet []string, hist []int, fail func(kind, format string, a ...any)) string {
	key := ""
	vsched.RunOnce(10, func(ex *vsched.Exec) string {
		st := newSys(cfg.spec())
		m := newModel(cfg)
		here := func(step int) []string {
			var out []string
			for _, h := range hist[:step+1] {
				out = append(out, alphabet[h])
			}
			return out
		}
		check := func(step int) bool {
			if st.panic != "" || len(st.f.panics) > 0 {
				fail("supervisor-panic", "after %v: the supervisor panicked: %s %v", here(step), st.panic, st.f.panics)
				return false
			}
			live := st.f.live
			// R4: Children() lists exactly the live children
			listed := map[gen.PID]bool{}
			if st.ended == nil {
				for _, c := range st.s.Children() {
					if c.PID == (gen.PID{}) {
						continue
					}
					listed[c.PID] = true
					if _, ok := live[c.PID]; !ok && st.f.mbox.Urgent.Item() == nil && !stuckShutdown(st.s) {
						fail("dead-child-listed", "after %v: Children() lists %s for spec %s, which has terminated (its exit was processed)", here(step), c.PID, c.Spec)
						return false
					}
				}
				for p, c := range live {
					if !listed[p] {
						fail("live-child-not-listed", "after %v: child %s (spec %s) is running but Children() does not know it", here(step), p, c.spec)
						return false
					}
				}
			}
			// the supervisor ends only after every child has ended
			if st.ended != nil && len(live) > 0 {
				fail("ended-with-live-children", "after %v: the supervisor terminated (%v) while children are running: %v", here(step), st.ended, specsOf(st.f))
				return false
			}
			// progress: waiting for children that do not exist any more
			if st.ended == nil && len(live) == 0 && len(st.f.exitReq) == 0 && stuckShutdown(st.s) {
				fail("shutdown-never-completes", "after %v: the supervisor is shutting down and waits for children, but none is left", here(step))
				return false
			}
			if !m.clean {
				return true
			}
			stable := len(st.f.exitReq) == 0
			if m.ended != (st.ended != nil) {
				fail("supervisor-end-mismatch", "after %v: supervisor ended=%v (%v), the documented semantics say ended=%v", here(step), st.ended != nil, st.ended, m.ended)
				return false
			}
			if m.ended {
				return true
			}
			ch := st.s.Children()
			for i := range m.c {
				var got SupervisorChild
				for _, c := range ch {
					if c.Spec == specNames[i] {
						got = c
					}
				}
				_, isLive := live[got.PID]
				if !stable && (isLive != m.c[i].running || (isLive && live[got.PID].gen != m.c[i].gen)) {
					// while stop requests are pending the implementation may or may not wait for
					// them before it goes on; the comparison resumes at the next stable state of a
					// history that stayed in step with the model
					m.clean = false
					return true
				}
				if isLive != m.c[i].running {
					k := "child-not-restarted"
					if isLive {
						k = "child-running-unexpectedly"
					}
					fail(k, "after %v: child %s running=%v, the %s/%s semantics say running=%v (children: %s)", here(step), specNames[i], isLive, cfg.name(), "", m.c[i].running, specsOf(st.f))
					return false
				}
				if isLive && live[got.PID].gen != m.c[i].gen {
					fail("restart-scope", "after %v: child %s is at generation %d, expected %d (restart scope of %s)", here(step), specNames[i], live[got.PID].gen, m.c[i].gen, cfg.name())
					return false
				}
				if got.Disabled != m.c[i].disabled {
					fail("disabled-flag", "after %v: child %s Disabled=%v, expected %v", here(step), specNames[i], got.Disabled, m.c[i].disabled)
					return false
				}
				// pending exit requests: exactly the children the model says were asked to stop
				_, asked := st.f.exitReq[got.PID]
				if isLive && asked != m.c[i].stopping {
					fail("stop-requests", "after %v: child %s asked-to-stop=%v, expected %v (KeepOrder=%v)", here(step), specNames[i], asked, m.c[i].stopping, cfg.keep)
					return false
				}
			}
			// R2: children are (re)started in spec order
			if stable && fmt.Sprint(st.f.spawnOrder) != fmt.Sprint(m.expSpawn) {
				fail("start-order", "after %v: children were started in the order %v, expected %v", here(step), st.f.spawnOrder, m.expSpawn)
				return false
			}
			return true
		}
		st.run()
		if !check(-1 + 0) {
			return ""
		}
		for step, opi := range hist {
			if st.ended != nil {
				return "" // nothing applies to a terminated supervisor
			}
			op := alphabet[opi]
			parts := strings.Split(op, ".")
			switch parts[0] {
			case "die", "deliver":
				i := idx(parts[1])
				pids := st.f.liveOf(specNames[i])
				if len(pids) == 0 {
					return ""
				}
				pid := pids[0]
				if parts[0] == "deliver" {
					r, ok := st.f.exitReq[pid]
					if !ok {
						return ""
					}
					st.f.die(pid, r)
					m.died(i, r, true)
				} else {
					r := map[string]error{"normal": gen.TerminateReasonNormal, "shutdown": gen.TerminateReasonShutdown, "crash": errCrash}[parts[2]]
					_, requested := st.f.exitReq[pid]
					st.f.die(pid, r)
					m.died(i, r, requested)
				}
			case "stranger":
				st.f.strangerExit(errStranger)
				if m.mode == "restart" {
					m.clean = false
				} else if m.mode != "shutdown" {
					m.shutdown()
				}
			case "start", "disable", "enable":
				// management calls are issued in stable states only
				unstable := m.mode != "idle" || m.anyStopping() || len(st.f.exitReq) > 0 || !m.clean
				if (unstable && m.mode == "shutdown") || shuttingDown(st.s) {
					return "" // management calls on a supervisor that is shutting down are out of scope
				}
				i := idx(parts[1])
				var err error
				flagsBefore := disabledFlags(st.s)
				st.guard(func() {
					switch parts[0] {
					case "start":
						err = st.s.StartChild(specNames[i])
					case "disable":
						err = st.s.DisableChild(specNames[i])
					case "enable":
						err = st.s.EnableChild(specNames[i])
					}
				})
				if unstable {
					// a management call while a restart or a stop is in progress: it may be refused;
					// if it is accepted the model stops predicting, the invariants (no panic, no
					// stale listing, no stuck shutdown) stay in force
					if err == ErrSupervisorStrategyActive {
						// refused because a restart or stop is in progress: then it must not have changed anything
						// (other errors, e.g. a name still taken by the instance that is being stopped, are outside this clause)
						if after := disabledFlags(st.s); after != flagsBefore {
							fail("refused-call-had-an-effect", "after %v: %s returned %v, yet the disabled flags of the children changed from %s to %s", here(step), alphabet[hist[step]], err, flagsBefore, after)
							return ""
						}
						m.clean = false
					} else {
						m.clean = false
					}
					st.run()
					if !check(step) {
						return ""
					}
					continue
				}
				c := &m.c[i]
				switch parts[0] {
				case "start":
					want := error(nil)
					if c.disabled {
						want = ErrSupervisorChildDisabled
					} else if c.running {
						want = ErrSupervisorChildRunning
					}
					if err != want {
						fail("startchild-result", "after %v: StartChild(%s) returned %v, expected %v", here(step), specNames[i], err, want)
						return ""
					}
					if want == nil {
						c.running = true
						c.gen++
						m.expSpawn = append(m.expSpawn, specNames[i])
					}
				case "disable":
					if err != nil {
						fail("disablechild-result", "after %v: DisableChild(%s) returned %v", here(step), specNames[i], err)
						return ""
					}
					c.disabled = true
					if c.running {
						c.stopping = true
					}
				case "enable":
					if err != nil {
						fail("enablechild-result", "after %v: EnableChild(%s) returned %v", here(step), specNames[i], err)
						return ""
					}
					if c.disabled {
						c.disabled = false
						if !c.running {
							c.running = true
							c.gen++
							m.expSpawn = append(m.expSpawn, specNames[i])
						}
					}
				}
			}
			st.run()
			if !check(step) {
				return ""
			}
		}
		key = canonSys(st) + fmt.Sprintf(" | model mode=%s from=%d clean=%v ended=%v", m.mode, m.from, m.clean, m.ended)
		return ""
	})
	return key
}

func specsOf(f *fakeProc) string {
	var out []string
	for p, c := range f.live {
		_, asked := f.exitReq[p]
		out = append(out, fmt.Sprintf("%s#%d(stop-requested=%v)", c.spec, c.gen, asked))
	}
	sort.Strings(out)
	return strings.Join(out, " ")
}

func shuttingDown(s *tsup) bool {
	switch m := s.sup.(type) {
	case *supARFO:
		return m.mode == 3
	case *supOFO:
		return m.shutdown
	case *supSOFO:
		return m.shutdown
	}
	return false
}

func stuckShutdown(s *tsup) bool {
	switch m := s.sup.(type) {
	case *supARFO:
		return m.mode == 3 || m.mode == 2
	case *supOFO:
		return m.shutdown
	case *supSOFO:
		return m.shutdown
	}
	return false
}

// canonical form: live children as spec#generation with their pending exit request, the
// supervisor's own view with pids renamed, and its internal mode
func canonSys(st *sys) string {
	var b strings.Builder
	b.WriteString(specsOf(st.f))
	b.WriteString(" || ")
	if st.ended != nil {
		fmt.Fprintf(&b, "ended=%v", st.ended)
		return b.String()
	}
	for _, c := range st.s.Children() {
		g := 0
		if lc, ok := st.f.live[c.PID]; ok {
			g = lc.gen
		}
		fmt.Fprintf(&b, "[%s g%d dis=%v]", c.Spec, g, c.Disabled)
	}
	fmt.Fprintf(&b, " state=%d", st.s.state)
	switch m := st.s.sup.(type) {
	case *supARFO:
		fmt.Fprintf(&b, " mode=%d wait=%d ri=%d", m.mode, len(m.wait), m.restartI)
	case *supOFO:
		fmt.Fprintf(&b, " mode=%d wait=%d sh=%v", m.mode, len(m.wait), m.shutdown)
	case *supSOFO:
		fmt.Fprintf(&b, " wait=%d sh=%v", len(m.wait), m.shutdown)
	}
	return b.String()
}

func init() {
	var cfgs []c08cfg
	for _, typ := range []SupervisorType{SupervisorTypeOneForOne, SupervisorTypeAllForOne, SupervisorTypeRestForOne} {
		for _, strat := range []SupervisorStrategy{SupervisorStrategyTransient, SupervisorStrategyTemporary, SupervisorStrategyPermanent} {
			for _, keep := range []bool{false, true} {
				if keep && typ == SupervisorTypeOneForOne {
					continue
				}
				cfgs = append(cfgs, c08cfg{typ: typ, strategy: strat, keep: keep, signif: -1, nchild: 3})
			}
			if strat != SupervisorStrategyPermanent {
				cfgs = append(cfgs, c08cfg{typ: typ, strategy: strat, signif: 1, nchild: 3})
				cfgs = append(cfgs, c08cfg{typ: typ, strategy: strat, signif: -1, autoOff: true, nchild: 2})
			}
		}
		cfgs = append(cfgs, c08cfg{typ: typ, strategy: SupervisorStrategyTransient, keep: typ != SupervisorTypeOneForOne, signif: -1, nchild: 3, handle: true})
	}
	for _, cfg := range cfgs {
		cfg := cfg
		alphabet := c08Alphabet(cfg.nchild)
		spec := harn.OpSeqSpec{Alphabet: alphabet, DepthQuick: 6, DepthThorough: 8, NoDedupQuick: 2, NoDedupThorough: 3}
		spec.Run = func(hist []int, fail func(kind, format string, a ...any)) string {
			return c08Run(cfg, alphabet, hist, fail)
		}
		harn.Register(harn.Scenario{Property: "C08", Name: cfg.name(), Run: func(c *harn.Ctx) *harn.Result { return harn.OpSeq(c, spec) }})
	}
}
