//go:build verif

package act

import (
	"fmt"
	"strings"

	"ergo.services/ergo/gen"
	"verif.local/vsched"
	"verif.local/vsched/harn"
)

// C08, simple-one-for-one: dynamic instances of two specs.

func sofoAlphabet() []string {
	var a []string
	for _, x := range []string{"a", "b"} {
		a = append(a, "start."+x, "die."+x+".normal", "die."+x+".shutdown", "die."+x+".crash", "deliver."+x, "disable."+x, "enable."+x)
	}
	return append(a, "stranger")
}

func sofoRun(strategy SupervisorStrategy, alphabet []string, hist []int, fail func(kind, format string, a ...any)) string {
	key := ""
	vsched.RunOnce(10, func(ex *vsched.Exec) string {
		cfg := c08cfg{typ: SupervisorTypeSimpleOneForOne, strategy: strategy, signif: -1, nchild: 2}
		st := newSys(cfg.spec())
		count := map[string]int{}    // model: live instances per spec
		stopping := map[string]int{} // of which asked to stop
		disabled := map[string]bool{}
		shutdown, ended := false, false
		here := func(step int) []string {
			var out []string
			for _, h := range hist[:step+1] {
				out = append(out, alphabet[h])
			}
			return out
		}
		check := func(step int) bool {
			if st.panic != "" || len(st.f.panics) > 0 {
				fail("supervisor-panic", "after %v: the supervisor panicked: %s %v", here(step), st.panic, st.f.panics)
				return false
			}
			if st.ended != nil && len(st.f.live) > 0 {
				fail("ended-with-live-children", "after %v: the supervisor terminated (%v) while children are running: %v", here(step), st.ended, specsOf(st.f))
				return false
			}
			if st.ended == nil && len(st.f.live) == 0 && len(st.f.exitReq) == 0 && stuckShutdown(st.s) {
				fail("shutdown-never-completes", "after %v: the supervisor is shutting down and waits for children, but none is left", here(step))
				return false
			}
			if ended != (st.ended != nil) {
				fail("supervisor-end-mismatch", "after %v: supervisor ended=%v (%v), expected ended=%v", here(step), st.ended != nil, st.ended, ended)
				return false
			}
			if ended {
				return true
			}
			listed := map[gen.PID]bool{}
			for _, c := range st.s.Children() {
				listed[c.PID] = true
				if _, ok := st.f.live[c.PID]; !ok && st.f.mbox.Urgent.Item() == nil {
					fail("dead-child-listed", "after %v: Children() lists %s (%s), which has terminated", here(step), c.PID, c.Spec)
					return false
				}
			}
			for p, c := range st.f.live {
				if !listed[p] {
					fail("live-child-not-listed", "after %v: instance %s of %s is running but Children() does not know it", here(step), p, c.spec)
					return false
				}
			}
			for _, x := range []string{"a", "b"} {
				if got := len(st.f.liveOf(gen.Atom(x))); got != count[x] {
					k := "child-not-restarted"
					if got > count[x] {
						k = "child-running-unexpectedly"
					}
					fail(k, "after %v: %d instances of %s are running, expected %d", here(step), got, x, count[x])
					return false
				}
			}
			return true
		}
		st.run()
		if !check(-1) {
			return ""
		}
		for step, opi := range hist {
			if st.ended != nil {
				return ""
			}
			op := alphabet[opi]
			parts := strings.Split(op, ".")
			died := func(x string, r error, wasStopping bool) {
				count[x]--
				if wasStopping {
					stopping[x]--
				}
				if shutdown {
					if count["a"]+count["b"] == 0 {
						ended = true
					}
					return
				}
				restart := strategy == SupervisorStrategyPermanent || (strategy == SupervisorStrategyTransient && abnormal(r))
				if restart && !disabled[x] {
					count[x]++
				}
			}
			switch parts[0] {
			case "start":
				if shutdown || count[parts[1]] >= 2 {
					return ""
				}
				var err error
				st.guard(func() { err = st.s.StartChild(gen.Atom(parts[1])) })
				want := error(nil)
				if disabled[parts[1]] {
					want = ErrSupervisorChildDisabled
				}
				if err != want {
					fail("startchild-result", "after %v: StartChild(%s) returned %v, expected %v", here(step), parts[1], err, want)
					return ""
				}
				if err == nil {
					count[parts[1]]++
				}
			case "die", "deliver":
				pids := st.f.liveOf(gen.Atom(parts[1]))
				if len(pids) == 0 {
					return ""
				}
				pid := pids[0]
				r, requested := st.f.exitReq[pid]
				if parts[0] == "deliver" {
					if !requested {
						return ""
					}
				} else {
					r = map[string]error{"normal": gen.TerminateReasonNormal, "shutdown": gen.TerminateReasonShutdown, "crash": errCrash}[parts[2]]
				}
				st.f.die(pid, r)
				died(parts[1], r, requested)
			case "disable", "enable":
				if shutdown {
					return ""
				}
				var err error
				st.guard(func() {
					if parts[0] == "disable" {
						err = st.s.DisableChild(gen.Atom(parts[1]))
					} else {
						err = st.s.EnableChild(gen.Atom(parts[1]))
					}
				})
				if err != nil {
					fail("management-result", "after %v: %s returned %v", here(step), op, err)
					return ""
				}
				disabled[parts[1]] = parts[0] == "disable"
				if parts[0] == "disable" {
					stopping[parts[1]] = count[parts[1]]
				}
			case "stranger":
				st.f.strangerExit(errStranger)
				if !shutdown {
					shutdown = true
					if count["a"]+count["b"] == 0 {
						ended = true
					}
				}
			}
			st.run()
			if !check(step) {
				return ""
			}
		}
		key = canonSys(st) + fmt.Sprintf(" | model a=%d b=%d dis=%v/%v sh=%v", count["a"], count["b"], disabled["a"], disabled["b"], shutdown)
		return ""
	})
	return key
}

func init() {
	for _, strat := range []SupervisorStrategy{SupervisorStrategyTransient, SupervisorStrategyTemporary, SupervisorStrategyPermanent} {
		strat := strat
		alphabet := sofoAlphabet()
		spec := harn.OpSeqSpec{Alphabet: alphabet, DepthQuick: 6, DepthThorough: 8, NoDedupQuick: 2, NoDedupThorough: 3}
		spec.Run = func(hist []int, fail func(kind, format string, a ...any)) string {
			return sofoRun(strat, alphabet, hist, fail)
		}
		cfg := c08cfg{typ: SupervisorTypeSimpleOneForOne, strategy: strat, signif: -1}
		harn.Register(harn.Scenario{Property: "C08", Name: cfg.name(), Run: func(c *harn.Ctx) *harn.Result { return harn.OpSeq(c, spec) }})
	}
}
