//go:build verif

package act

import (
	"fmt"
	"sort"
	"strings"

	"ergo.services/ergo/gen"
	"verif.local/vsched"
	"verif.local/vsched/harn"
)

// C09 — restart intensity limit.

// reference: the failure at time t exceeds iff more than `intensity` failures (itself included) lie
// within the last `period` seconds; a failure exactly `period` old may count or not.
func refExceeded(times []int64, period, intensity int) (strict, lenient bool) {
	t := times[len(times)-1]
	p := int64(period) * 1000
	in, edge := 0, 0
	for _, x := range times {
		switch {
		case t-x < p:
			in++
		case t-x == p:
			edge++
		}
	}
	return in > intensity, in+edge > intensity
}

func gapsFor(period int) []int64 {
	p := int64(period) * 1000
	return []int64{0, 1, 500, p - 1, p, p + 1, 2 * p}
}

func init() {
	// the real supCheckRestartIntensity under the virtual clock, every gap sequence
	harn.Register(harn.Scenario{Property: "C09", Name: "function-all-gap-sequences", Run: func(c *harn.Ctx) *harn.Result {
		r := harn.NewResult("enum")
		extra := 2
		if c.Thorough {
			extra = 3
		}
		distinct := map[string]bool{}
		vsched.RunOnce(10, func(ex *vsched.Exec) string {
			base := ex.Now
			for intensity := 1; intensity <= 4; intensity++ {
				for period := 1; period <= 3; period++ {
					gaps := gapsFor(period)
					maxLen := intensity + extra
					seq := make([]int, maxLen)
					var rec func(d int)
					rec = func(d int) {
						if d > 0 {
							// evaluate the sequence seq[:d] from scratch
							var restarts []int64
							var times []int64
							t := int64(0)
							exceededAt := -1
							for k := 0; k < d; k++ {
								t += gaps[seq[k]]
								ex.Now = base + t*1e6
								times = append(times, t)
								var exc bool
								restarts, exc = supCheckRestartIntensity(restarts, period, intensity)
								strict, lenient := refExceeded(times, period, intensity)
								r.Executions++
								if exc && !lenient {
									r.Fail("gave-up-too-early", "intensity %d period %ds, failures at %v ms: the failure #%d is reported as exceeding, but only %d failures lie within the period", intensity, period, times, k+1, countWithin(times, period))
								}
								if !exc && strict {
									r.Fail("limit-not-enforced", "intensity %d period %ds, failures at %v ms: the failure #%d is accepted although %d failures lie within the period", intensity, period, times, k+1, countWithin(times, period))
								}
								if len(restarts) > intensity+1 {
									r.Fail("window-grows", "intensity %d period %ds, failures at %v ms: the kept list has %d entries", intensity, period, times, len(restarts))
								}
								if exc {
									exceededAt = k
									break
								}
							}
							distinct[fmt.Sprint(intensity, period, seq[:d], exceededAt)] = true
							if exceededAt >= 0 {
								return // the supervisor gives up here: no longer sequences with this prefix
							}
						}
						if d == maxLen {
							return
						}
						for g := range gaps {
							seq[d] = g
							rec(d + 1)
						}
					}
					rec(0)
				}
			}
			ex.Now = base
			return ""
		})
		r.States, r.Transitions, r.Distinct = len(distinct), r.Executions, len(distinct)
		r.Outcomes["sequences"] = len(distinct)
		r.Samples = append(r.Samples, map[string]any{"intensity": "1..4", "period_s": "1..3", "gaps_ms": "0,1,500,P-1,P,P+1,2P", "max_length": "intensity+" + fmt.Sprint(extra)})
		return r
	}})

	// the same patterns through the real supervisors (fake process, virtual clock)
	type c09cfg struct {
		typ      SupervisorType
		strategy SupervisorStrategy
		nchild   int
	}
	var c09cfgs []c09cfg
	for _, typ := range []SupervisorType{SupervisorTypeOneForOne, SupervisorTypeAllForOne, SupervisorTypeRestForOne, SupervisorTypeSimpleOneForOne} {
		c09cfgs = append(c09cfgs, c09cfg{typ, SupervisorStrategyPermanent, 2}, c09cfg{typ, SupervisorStrategyTransient, 3})
	}
	for _, cc := range c09cfgs {
		cc := cc
		typ := cc.typ
		cfg := c08cfg{typ: typ, strategy: cc.strategy, signif: -1, nchild: cc.nchild}
		harn.Register(harn.Scenario{Property: "C09", Name: "supervisor-" + cfg.name(), Run: func(c *harn.Ctx) *harn.Result {
			r := harn.NewResult("opseq")
			distinct := map[string]bool{}
			for intensity := 1; intensity <= 3; intensity++ {
				// under the transient strategy some children first end normally: those terminations
				// are not restarts and must not count
				for _, victim := range []int{0, 1, 10, 20} {
					if victim >= 10 && cc.strategy != SupervisorStrategyTransient {
						continue
					}
					period := 1
					gaps := []int64{0, 500, 999, 1001, 2000}
					maxLen := intensity + 2
					if c.Thorough {
						gaps = []int64{0, 1, 500, 999, 1000, 1001, 2000}
						maxLen = intensity + 3
					}
					seq := make([]int, maxLen)
					var rec func(d int) bool
					rec = func(d int) bool {
						if d > 0 {
							gaveUp := c09RunSupervisor(r, cfg, intensity, period, victim, gaps, seq[:d])
							distinct[fmt.Sprint(intensity, victim, seq[:d], gaveUp)] = true
							r.Executions++
							r.Transitions += d
							if gaveUp {
								return true
							}
						}
						if d == maxLen {
							return false
						}
						for g := range gaps {
							seq[d] = g
							rec(d + 1)
						}
						return false
					}
					rec(0)
				}
			}
			// options left at zero take the defaults independently of each other
			for _, dflt := range []struct{ rawI, rawP, effI, effP int }{{0, 1, int(defaultRestartIntensity), 1}, {2, 0, 2, int(defaultRestartPeriod)}} {
				c09x = c09extra{raw: true, rawIntensity: dflt.rawI, rawPeriod: dflt.rawP}
				p := int64(dflt.effP) * 1000
				gaps := []int64{0, p / 2, p - 1, p + 1}
				maxLen := dflt.effI + 2
				seq := make([]int, maxLen)
				var rec func(d int)
				rec = func(d int) {
					if d > 0 {
						gaveUp := c09RunSupervisor(r, cfg, dflt.effI, dflt.effP, 0, gaps, seq[:d])
						distinct[fmt.Sprint("default", dflt, seq[:d], gaveUp)] = true
						r.Executions++
						r.Transitions += d
						if gaveUp {
							return
						}
					}
					if d == maxLen {
						return
					}
					for g := range gaps {
						if dflt.effI > 3 && g == 1 {
							continue // (keeps the 5-failure case at 3^7 sequences)
						}
						seq[d] = g
						rec(d + 1)
					}
				}
				rec(0)
				c09x = c09extra{}
			}
			// two children failing at the same moment (three children, so that a live one stands behind a dead one)
			if cc.nchild == 3 && typ != SupervisorTypeSimpleOneForOne {
				for intensity := 1; intensity <= 3; intensity++ {
					c09x = c09extra{double: true}
					gaps := []int64{0, 500, 1001}
					maxLen := intensity + 1
					seq := make([]int, maxLen)
					var rec func(d int)
					rec = func(d int) {
						if d > 0 {
							gaveUp := c09RunSupervisor(r, cfg, intensity, 1, 0, gaps, seq[:d])
							distinct[fmt.Sprint("double", intensity, seq[:d], gaveUp)] = true
							r.Executions++
							r.Transitions += d
							if gaveUp {
								return
							}
						}
						if d == maxLen {
							return
						}
						for g := range gaps {
							seq[d] = g
							rec(d + 1)
						}
					}
					rec(0)
					c09x = c09extra{}
				}
			}
			// a spec disabled and enabled again between failures: the failures before it still count
			if cc.nchild >= 2 && typ != SupervisorTypeSimpleOneForOne {
				for intensity := 1; intensity <= 3; intensity++ {
					for after := 1; after <= intensity; after++ {
						c09x = c09extra{toggleAfter: after}
						gaps := []int64{0, 500, 1001}
						maxLen := intensity + 1
						seq := make([]int, maxLen)
						var rec func(d int)
						rec = func(d int) {
							if d > 0 {
								gaveUp := c09RunSupervisor(r, cfg, intensity, 1, 0, gaps, seq[:d])
								distinct[fmt.Sprint("toggle", after, intensity, seq[:d], gaveUp)] = true
								r.Executions++
								r.Transitions += d
								if gaveUp {
									return
								}
							}
							if d == maxLen {
								return
							}
							for g := range gaps {
								seq[d] = g
								rec(d + 1)
							}
						}
						rec(0)
						c09x = c09extra{}
					}
				}
			}
			// simple-one-for-one: children of a disabled spec that are being stopped are not failures
			if typ == SupervisorTypeSimpleOneForOne {
				for _, k := range []int{1, 2, 3} {
					for intensity := 1; intensity <= 3; intensity++ {
						c09x = c09extra{preDisable: k}
						gaps := []int64{0, 500, 1001}
						maxLen := intensity + 2
						seq := make([]int, maxLen)
						var rec func(d int)
						rec = func(d int) {
							if d > 0 {
								gaveUp := c09RunSupervisor(r, cfg, intensity, 1, 0, gaps, seq[:d])
								distinct[fmt.Sprint("disabled", k, intensity, seq[:d], gaveUp)] = true
								r.Executions++
								r.Transitions += d
								if gaveUp {
									return
								}
							}
							if d == maxLen {
								return
							}
							for g := range gaps {
								seq[d] = g
								rec(d + 1)
							}
						}
						rec(0)
						c09x = c09extra{}
					}
				}
			}
			r.States, r.Distinct = len(distinct), len(distinct)
			r.Outcomes["sequences"] = len(distinct)
			r.Samples = append(r.Samples, map[string]any{"type": cfg.name(), "intensity": "1..3", "period_s": 1, "gaps_ms": "0,500,999,1001,2000", "victim": "child a or b, 2 children"})
			return r
		}})
	}
}

func countWithin(times []int64, period int) int {
	t := times[len(times)-1]
	n := 0
	for _, x := range times {
		if t-x < int64(period)*1000 {
			n++
		}
	}
	return n
}

// c09RunSupervisor crashes the victim child once per gap; returns true if the supervisor gave up
// c09extra: rawIntensity/rawPeriod are what the spec says (0 = "use the default"); intensity/period passed to
// c09RunSupervisor are the effective values the reference counts with. preDisable: that many further children of
// the last spec are started and the spec is then disabled before the failures begin (simple-one-for-one only):
// their requested terminations are not failures.
type c09extra struct {
	raw                     bool
	rawIntensity, rawPeriod int
	preDisable              int
	toggleAfter             int  // after that many failures the last child's spec is disabled and enabled again through the API (neither is a failure, neither forgets one)
	double                  bool // at every step the last child and the first child fail at the same moment (both exits are queued before the supervisor runs)
}

var c09x c09extra

func c09RunSupervisor(r *harn.Result, cfg c08cfg, intensity, period, victim int, gaps []int64, seq []int) (gaveUp bool) {
	x := c09x
	normalExits := victim / 10 // 10 => child c ends normally first, 20 => b and c
	victim = victim % 10
	vsched.RunOnce(10, func(ex *vsched.Exec) string {
		spec := cfg.spec()
		spec.Restart.Intensity = uint16(intensity)
		spec.Restart.Period = uint16(period)
		if x.raw {
			spec.Restart.Intensity = uint16(x.rawIntensity)
			spec.Restart.Period = uint16(x.rawPeriod)
		}
		st := newSys(spec)
		st.run()
		if cfg.typ == SupervisorTypeSimpleOneForOne {
			st.guard(func() {
				for i := 0; i < cfg.nchild; i++ {
					st.s.StartChild(specNames[i])
				}
			})
			st.run()
		}
		down := map[int]bool{}
		if x.preDisable > 0 && cfg.typ == SupervisorTypeSimpleOneForOne {
			last := specNames[cfg.nchild-1]
			st.guard(func() {
				for i := 0; i < x.preDisable; i++ {
					st.s.StartChild(last)
				}
			})
			st.run()
			st.guard(func() { st.s.DisableChild(last) })
			st.run()
			for guard := 0; guard < 20 && len(st.f.exitReq) > 0 && st.ended == nil; guard++ {
				var ps []gen.PID
				for p := range st.f.exitReq {
					ps = append(ps, p)
				}
				sort.Slice(ps, func(i, j int) bool { return ps[i].ID < ps[j].ID })
				st.f.die(ps[0], st.f.exitReq[ps[0]])
				st.run()
			}
			down[cfg.nchild-1] = true
			if st.ended != nil {
				r.Fail("gave-up-too-early", "%s, intensity %d: the supervisor terminated (%v) when a spec with %d running children was disabled (no child failed)", cfg.name(), intensity, st.ended, x.preDisable+1)
				return ""
			}
		}
		for k := 0; k < normalExits; k++ {
			i := cfg.nchild - 1 - k
			pids := st.f.liveOf(specNames[i])
			if len(pids) != 1 {
				r.Fail("child-not-restarted", "%s: child %s is not running at the start", cfg.name(), specNames[i])
				return ""
			}
			st.f.die(pids[0], gen.TerminateReasonNormal)
			st.run()
			down[i] = true
			if st.ended != nil {
				r.Fail("gave-up-too-early", "%s, intensity %d: the supervisor terminated (%v) after a child ended NORMALLY", cfg.name(), intensity, st.ended)
				return ""
			}
		}
		base := ex.Now
		var times, coalesced []int64
		t := int64(0)
		desc := func() string {
			extra := ""
			if x.toggleAfter > 0 {
				extra = fmt.Sprintf(" (child %s disabled and enabled again after failure #%d)", specNames[cfg.nchild-1], x.toggleAfter)
			}
			return fmt.Sprintf("%s, intensity %d, period %ds, child %s crashing at %v ms%s", cfg.name(), intensity, period, specNames[victim], times, extra)
		}
		for k := range seq {
			t += gaps[seq[k]]
			ex.Now = base + t*1e6
			times = append(times, t)
			pids := st.f.liveOf(specNames[victim])
			if len(pids) == 0 {
				r.Fail("child-not-restarted", "%s: the child is not running before failure #%d", desc(), k+1)
				return ""
			}
			if x.double {
				// the last child's exit is queued first, the victim's right behind it
				if lp := st.f.liveOf(specNames[cfg.nchild-1]); len(lp) == 1 {
					st.f.die(lp[0], errCrash)
					coalesced = append(coalesced, t)
				}
			}
			st.f.die(pids[0], errCrash)
			st.run()
			// let every requested exit arrive (siblings being stopped), in pid order
			for guard := 0; guard < 20 && len(st.f.exitReq) > 0 && st.ended == nil; guard++ {
				var ps []gen.PID
				for p := range st.f.exitReq {
					ps = append(ps, p)
				}
				sort.Slice(ps, func(i, j int) bool { return ps[i].ID < ps[j].ID })
				st.f.die(ps[0], st.f.exitReq[ps[0]])
				st.run()
			}
			if st.panic != "" || len(st.f.panics) > 0 {
				r.Fail("supervisor-panic", "%s: %s %v", desc(), st.panic, st.f.panics)
				return ""
			}
			strict, lenient := refExceeded(times, period, intensity)
			if x.double {
				// all/rest-for-one may serve two simultaneous failures with ONE restart (the second exit arrives while
				// the children are being stopped anyway): it must give up if even one restart per step exceeds the
				// limit, and may give up only if one restart per failure does
				all := append(append([]int64{}, times...), coalesced...)
				sort.Slice(all, func(i, j int) bool { return all[i] < all[j] })
				_, lenient = refExceeded(all, period, intensity)
			}
			ended := st.ended != nil
			switch {
			case ended && !lenient:
				r.Fail("gave-up-too-early", "%s: the supervisor terminated (%v) at failure #%d, only %d failures lie within the period", desc(), st.ended, k+1, countWithin(times, period))
				return ""
			case !ended && strict:
				r.Fail("limit-not-enforced", "%s: the supervisor is still running after failure #%d although %d failures lie within the period", desc(), k+1, countWithin(times, period))
				return ""
			}
			if ended {
				gaveUp = true
				if st.ended != ErrSupervisorRestartsExceeded {
					r.Fail("wrong-give-up-reason", "%s: the supervisor gave up with reason %q, expected %q", desc(), st.ended, ErrSupervisorRestartsExceeded)
				}
				if len(st.f.live) > 0 {
					r.Fail("gave-up-with-live-children", "%s: the supervisor terminated while children are running: %s", desc(), specsOf(st.f))
				}
				return ""
			}
			// at or below the limit: everything is running again
			for i := 0; i < cfg.nchild; i++ {
				if down[i] && cfg.typ != SupervisorTypeAllForOne && !(cfg.typ == SupervisorTypeRestForOne && i > victim) {
					continue // ended normally earlier and outside the restart scope: stays down
				}
				if len(st.f.liveOf(specNames[i])) != 1 {
					r.Fail("child-not-restarted", "%s: after failure #%d child %s has %d instances", desc(), k+1, specNames[i], len(st.f.liveOf(specNames[i])))
					return ""
				}
			}
			if x.toggleAfter == k+1 && cfg.typ != SupervisorTypeSimpleOneForOne {
				last := specNames[cfg.nchild-1]
				for _, call := range []string{"disable", "enable"} {
					call := call
					st.guard(func() {
						if call == "disable" {
							st.s.DisableChild(last)
						} else {
							st.s.EnableChild(last)
						}
					})
					st.run()
					for guard := 0; guard < 20 && len(st.f.exitReq) > 0 && st.ended == nil; guard++ {
						var ps []gen.PID
						for p := range st.f.exitReq {
							ps = append(ps, p)
						}
						sort.Slice(ps, func(i, j int) bool { return ps[i].ID < ps[j].ID })
						st.f.die(ps[0], st.f.exitReq[ps[0]])
						st.run()
					}
					if st.ended != nil {
						r.Fail("gave-up-too-early", "%s: the supervisor terminated (%v) on %s of child %s (a request, not a failure)", desc(), st.ended, call, last)
						return ""
					}
				}
				if n := len(st.f.liveOf(last)); n != 1 {
					r.Fail("child-not-restarted", "%s: after disabling and enabling child %s it has %d instances", desc(), last, n)
					return ""
				}
			}
		}
		return ""
	})
	return gaveUp
}

// two supervisors in one process: each counts its own failures only. Every sequence of failures of A's and B's first
// child (who fails, and how long after the previous failure) up to length 4; after every failure the supervisor it
// happened under has given up exactly if ITS failures within the period exceed the intensity.
func init() {
	for _, cc := range c08configsForC09() {
		cfg := cc
		harn.Register(harn.Scenario{Property: "C09", Name: "two-supervisors-" + cfg.name(), Run: func(c *harn.Ctx) *harn.Result {
			r := harn.NewResult("enum")
			gaps := []int64{0, 600, 1300}
			maxLen := 4
			if c.Thorough {
				maxLen = 5
			}
			for intensity := 1; intensity <= 2; intensity++ {
				seq := make([][2]int, maxLen) // (who, gap index)
				var rec func(d int)
				rec = func(d int) {
					if d > 0 {
						if stop := c09TwoSupervisors(r, cfg, intensity, gaps, seq[:d]); stop {
							return
						}
					}
					if d == maxLen {
						return
					}
					for who := 0; who < 2; who++ {
						for g := range gaps {
							seq[d] = [2]int{who, g}
							rec(d + 1)
						}
					}
				}
				rec(0)
			}
			r.States, r.Transitions, r.Distinct = r.Executions, r.Executions, r.Executions
			r.Samples = append(r.Samples, map[string]any{"type": cfg.name(), "supervisors": 2, "intensity": "1..2", "period_s": 1, "gaps_ms": gaps, "max_failures": maxLen})
			return r
		}})
	}
}

func c08configsForC09() []c08cfg {
	var out []c08cfg
	for _, typ := range []SupervisorType{SupervisorTypeOneForOne, SupervisorTypeAllForOne, SupervisorTypeRestForOne, SupervisorTypeSimpleOneForOne} {
		out = append(out, c08cfg{typ: typ, strategy: SupervisorStrategyPermanent, signif: -1, nchild: 2})
	}
	return out
}

// returns true when the sequence need not be extended (a supervisor gave up, or a failure was reported)
func c09TwoSupervisors(r *harn.Result, cfg c08cfg, intensity int, gaps []int64, seq [][2]int) (stop bool) {
	r.Executions++
	vsched.RunOnce(10, func(ex *vsched.Exec) string {
		var sys2 [2]*sys
		for i := range sys2 {
			spec := cfg.spec()
			spec.Restart.Intensity = uint16(intensity)
			spec.Restart.Period = 1
			st := newSys(spec)
			st.run()
			if cfg.typ == SupervisorTypeSimpleOneForOne {
				st.guard(func() {
					for k := 0; k < cfg.nchild; k++ {
						st.s.StartChild(specNames[k])
					}
				})
				st.run()
			}
			sys2[i] = st
		}
		base := ex.Now
		var times [2][]int64
		t := int64(0)
		for k, step := range seq {
			who := step[0]
			t += gaps[step[1]]
			ex.Now = base + t*1e6
			st := sys2[who]
			times[who] = append(times[who], t)
			desc := func() string {
				return fmt.Sprintf("%s, two supervisors A and B in one process, intensity %d, period 1s; failures (supervisor, ms): %v", cfg.name(), intensity, describeSeq(seq[:k+1], gaps))
			}
			pids := st.f.liveOf(specNames[0])
			if len(pids) == 0 {
				r.Fail("child-not-restarted", "%s: the first child of %c is not running before this failure", desc(), 'A'+rune(who))
				stop = true
				return ""
			}
			st.f.die(pids[0], errCrash)
			st.run()
			for guard := 0; guard < 20 && len(st.f.exitReq) > 0 && st.ended == nil; guard++ {
				var ps []gen.PID
				for p := range st.f.exitReq {
					ps = append(ps, p)
				}
				sort.Slice(ps, func(i, j int) bool { return ps[i].ID < ps[j].ID })
				st.f.die(ps[0], st.f.exitReq[ps[0]])
				st.run()
			}
			strict, lenient := refExceeded(times[who], 1, intensity)
			ended := st.ended != nil
			switch {
			case ended && !lenient:
				r.Fail("gave-up-too-early", "%s: supervisor %c terminated (%v) although only %d of ITS failures lie within the period", desc(), 'A'+rune(who), st.ended, countWithin(times[who], 1))
				stop = true
			case !ended && strict:
				r.Fail("limit-not-enforced", "%s: supervisor %c is still running although %d of its failures lie within the period", desc(), 'A'+rune(who), countWithin(times[who], 1))
				stop = true
			case ended:
				stop = true
			}
			if other := sys2[1-who]; other.ended != nil && !stop {
				r.Fail("gave-up-too-early", "%s: supervisor %c terminated (%v) on a failure under the OTHER supervisor", desc(), 'A'+rune(1-who), other.ended)
				stop = true
			}
			if stop {
				return ""
			}
		}
		return ""
	})
	return stop
}

func describeSeq(seq [][2]int, gaps []int64) string {
	var out []string
	t := int64(0)
	for _, s := range seq {
		t += gaps[s[1]]
		out = append(out, fmt.Sprintf("%c@%d", 'A'+rune(s[0]), t))
	}
	return strings.Join(out, " ")
}
