#!/bin/sh
# Build the verification framework from files on disk only (offline).
set -e
cd "$(dirname "$0")"
export GOFLAGS=-mod=mod GOPROXY=off GOSUMDB=off GOTOOLCHAIN=local
mkdir -p bin evidence replays
(cd engine/vinstr && go build -o ../../bin/vinstr .)
# warm the build cache with one instrumented build of every harness package
./check --warm || true
